"""C08 -- external representations round-trip; both reader/writer pairs agree (DESIGN.md section 3, C08).

Data are built WITHOUT the reader (constructors; flonums from their bits through (scheme bytevector); bignums from
24-bit limbs; strings and symbols from code-point lists).  For every datum x three questions are decided separately:

  (W)  does the text T that `write` produces denote x?          decided in Python by an independent reader
                                                                (vf/props/c08_read.py; float(T) for flonums)
  (R)  does (read (open-input-string T)) give back x?           decided on a reader-independent dump of the result
                                                                (flonums: bit pattern; graphs: canonical labelling)
  (X)  do the native pair and (scheme read)/(scheme write) agree?   same text -> same datum or both reject;
                                                                the library writers' texts must denote x as well
Mutated texts (and texts printed by Python in many legal spellings) are used for (X) only.
"""
import random
import re
import struct

from .. import build as B
from .. import cases as C
from .. import run as R
from .. import report as RP
from ..sexpr import parse_all
from . import c08_read as RD
from .c08_read import Node

IMPORTS = """(import (scheme base) (scheme write) (scheme read) (scheme char) (scheme complex) (scheme process-context)
  (only (scheme bytevector) bytevector-u32-set! bytevector-u32-ref bytevector-ieee-double-ref
        bytevector-ieee-double-set! endianness)
  (rename (only (chibi) read write) (read native-read) (write native-write)))"""

HEADER = r"""
(define bv8 (make-bytevector 8 0))
(define (bits->double hi lo)
  (bytevector-u32-set! bv8 0 lo (endianness little))
  (bytevector-u32-set! bv8 4 hi (endianness little))
  (bytevector-ieee-double-ref bv8 0 (endianness little)))
(define (double->bits x)
  (bytevector-ieee-double-set! bv8 0 x (endianness little))
  (list (bytevector-u32-ref bv8 4 (endianness little)) (bytevector-u32-ref bv8 0 (endianness little))))
(define (cps s) (map char->integer (string->list s)))
(define (S . ns) (list->string (map integer->char ns)))
(define (Y . ns) (string->symbol (list->string (map integer->char ns))))
(define (bvl bv)
  (let lp ((i (- (bytevector-length bv) 1)) (acc '()))
    (if (< i 0) acc (lp (- i 1) (cons (bytevector-u8-ref bv i) acc)))))
(define (big s . ls)                       ; little-endian limbs, base 2^24
  (let lp ((ls (reverse ls)) (acc 0)) (if (null? ls) (* s acc) (lp (cdr ls) (+ (car ls) (* acc 16777216))))))
(define (limbs n) (if (< n 16777216) (list n) (cons (remainder n 16777216) (limbs (quotient n 16777216)))))
(define (dump x)
  (cond ((pair? x) (list 'p (dump (car x)) (dump (cdr x))))
        ((null? x) '(e))
        ((boolean? x) (list 'b (if x 1 0)))
        ((char? x) (list 'c (char->integer x)))
        ((string? x) (cons 's (cps x)))
        ((symbol? x) (cons 'y (cps (symbol->string x))))
        ((vector? x) (cons 'v (map dump (vector->list x))))
        ((bytevector? x) (cons 'u (bvl x)))
        ((eof-object? x) '(eof))
        ((and (number? x) (exact? x) (integer? x)) (cons 'i (cons (if (< x 0) -1 1) (limbs (abs x)))))
        ((and (number? x) (exact? x) (rational? x)) (list 'q (dump (numerator x)) (dump (denominator x))))
        ((and (number? x) (real? x)) (cons 'f (double->bits x)))
        ((number? x) (list 'z (dump (real-part x)) (dump (imag-part x))))
        (else '(other))))
;; graph-safe dump: (root-ref (id kind ref ...) ...), ids in first-visit order, ref = (r id) | leaf dump
(define (gdump x)
  (let ((tab '()) (recs '()))
    (define (ref x)
      (if (or (pair? x) (vector? x))
          (let ((a (assq x tab)))
            (if a
                (list 'r (cdr a))
                (let ((id (length tab)))
                  (set! tab (cons (cons x id) tab))
                  (let ((kids (if (pair? x)
                                  (let* ((a (ref (car x))) (d (ref (cdr x)))) (list a d))
                                  (let lp ((i 0) (acc '()))
                                    (if (= i (vector-length x)) (reverse acc)
                                        (lp (+ i 1) (cons (ref (vector-ref x i)) acc)))))))
                    (set! recs (cons (cons id (cons (if (pair? x) 'p 'v) kids)) recs))
                    (list 'r id)))))
          (dump x)))
    (let ((root (ref x))) (cons root recs))))
(define (w->s writer x) (let ((p (open-output-string))) (writer x p) (get-output-string p)))
(define (rdump reader s) (%try (lambda () (list 'ok (gdump (reader (open-input-string s)))))))
(define (alt t t2) (if (string=? t t2) #t (cps t2)))
;; leaves of a tree whose own text does not survive the native reader, or on which the two readers disagree (at most 2):
;; used to attribute a failure of the whole tree to the datum that causes it
(define (leaves x acc)
  (cond ((pair? x) (leaves (cdr x) (leaves (car x) acc)))
        ((vector? x) (let lp ((i 0) (acc acc)) (if (= i (vector-length x)) acc (lp (+ i 1) (leaves (vector-ref x i) acc)))))
        (else (cons x acc))))
(define (rlist reader t)                   ; t is the text of (list leaf): dump of the element read back, or a symbol
  (let ((r (%try (lambda () (list (reader (open-input-string t)))))))
    (cond ((not (null? (cdr r))) 'error)
          ((or (not (pair? (car r))) (not (null? (cdr (car r))))) 'other-shape)
          (else (dump (car (car r)))))))
(define (rstat d2 d)                       ; 0 equal, 1 same kind but another value, 2 another kind / shape / error
  (cond ((equal? d2 d) 0) ((and (pair? d2) (eq? (car d2) (car d))) 1) (else 2)))
(define (leafcheck x)
  (let lp ((ls (reverse (leaves x '()))) (bad '()))
    (if (or (null? ls) (>= (length bad) 4))
        (reverse bad)
        (let* ((l (car ls)) (t (w->s native-write (list l))) (d (dump l))
               (dn (rlist native-read t)) (dl (rlist read t)))
          (lp (cdr ls) (if (and (equal? dn d) (equal? dl d)) bad
                           (cons (list d (rstat dn d) (rstat dl d) (equal? dn dl)) bad)))))))
;; one acyclic datum: dump, native text, both readers on it, the three library writers
(define (rt x)
  (let ((t (w->s native-write x)))
    (%obs (list (dump x) (cps t) (rdump native-read t) (rdump read t)
                (alt t (w->s write x)) (alt t (w->s write-shared x)) (alt t (w->s write-simple x))
                (if (or (pair? x) (vector? x)) (leafcheck x) '())))))
;; one possibly cyclic datum: write-shared and write of (scheme write), read back by both readers
(define (rtg x)
  (let ((ts (w->s write-shared x)) (tw (w->s write x)))
    (%obs (list (gdump x) (cps ts) (rdump native-read ts) (rdump read ts)
                (cps tw) (rdump native-read tw) (rdump read tw)))))
;; a text (given as code points) through both readers
(define (x2 . ns)
  (let ((t (list->string (map integer->char ns))))
    (%obs (list (rdump native-read t) (rdump read t)))))
;; flonums: many per case, one compact line each:  text (hi lo)|x (hi lo)|x (#t|#f ...)
(define (fb y) (if (and (number? y) (inexact? y) (real? y)) (double->bits y) 'x))
(define (rdv reader t) (let ((r (%try (lambda () (list (reader (open-input-string t))))))) (if (eq? (car r) 'err) 'x (fb (car r)))))
(define (fl1 hl)
  (let* ((x (bits->double (car hl) (cadr hl)))
         (t (w->s native-write x)))
    (display t) (display " ")
    (write (list (rdv native-read t) (rdv read t)
                 (string=? t (w->s write x)) (string=? t (w->s write-shared x)) (string=? t (w->s write-simple x))
                 (string=? t (number->string x))
                 (let ((y (string->number t))) (if y (fb y) 'x))))
    (newline)))
"""


# ------------------------------------------------------------------------------------------------ flonums
def f2b(x):
    return struct.unpack("<Q", struct.pack("<d", x))[0]


def b2f(b):
    return struct.unpack("<d", struct.pack("<Q", b & ((1 << 64) - 1)))[0]


def flonum_workload(rng, tier):
    """-> list of (bits, class)"""
    out = []
    for h in range(1 << 16):
        x = struct.unpack("<e", struct.pack("<H", h))[0]
        if x != x and (h & 0x3ff) not in (1, 0x200, 0x3ff):
            continue                                   # a handful of NaN payloads is enough
        out.append((f2b(x) if x == x else (0x7ff0000000000000 | ((h & 0x3ff) << 42) | ((h >> 15) << 63)), "half"))
    for e in range(-1074, 1024):
        b = f2b(2.0 ** e)
        for d in (-1, 0, 1):
            if b + d >= 0:
                out.append((b + d, "pow2"))
                out.append(((b + d) | (1 << 63), "pow2"))
    for _ in range(3000 if tier == "quick" else 30000):
        out.append((rng.getrandbits(52) | (rng.getrandbits(1) << 63), "subnormal"))
    for b in (0, 1, 2, (1 << 52) - 1, 1 << 52, (1 << 52) + 1, 0x7fefffffffffffff, 0x7ff0000000000000, 0x7ff8000000000000,
              0x7ff0000000000001, 0x7ff8000000000001, 0xfff8000000000000):
        out.append((b, "special"))
        out.append((b | (1 << 63), "special"))
    # boundaries of the 15/16/17 digit formatting steps: decimal strings with 14..18 significant digits
    for _ in range(8000 if tier == "quick" else 80000):
        nd = rng.choice((14, 15, 15, 16, 16, 17, 17, 18))
        m = rng.randrange(10 ** (nd - 1), 10 ** nd)
        k = rng.choice((0, -nd, -nd + 1, 1, 5, -5, 22 - nd, 21 - nd, rng.randrange(-330, 300)))
        try:
            x = float("%de%d" % (m, k))
        except OverflowError:
            continue
        if x == x and abs(x) != float("inf"):
            out.append((f2b(x if rng.random() < 0.8 else -x), "digits%d" % nd))
    for k in range(0, 25):                               # where the writer switches between fixed and exponent notation
        for x in (10.0 ** k, 10.0 ** k - 1, 10.0 ** k + 1, 10.0 ** -k, float(2 ** 53 + k), float(10 ** k) * 1.5):
            out.append((f2b(x), "notation"))
    for _ in range(50000 if tier == "quick" else 1000000):
        out.append((rng.getrandbits(64), "random"))
    return out


def ftext_value(t):
    """bits denoted by a number text according to Python ("nan" for NaN), or None if it is not a real flonum text."""
    d = RD.parse_number(t)
    if d is None or d[0] != "f":
        return None
    return d[1]


def ulp_distance(a, b):
    def key(x):
        return x if x < (1 << 63) else (1 << 63) - x
    return abs(key(a) - key(b))


def run_flonums(rep, b, rng, tier, env):
    work = flonum_workload(rng, tier)
    per_case = 400
    cases = []
    for i in range(0, len(work), per_case):
        chunk = work[i:i + per_case]
        cid = "f%d" % (i // per_case)
        body = " ".join("(%d %d)" % (bits >> 32, bits & 0xffffffff) for bits, _ in chunk)
        cases.append((cid, "(%%case* %s (flush-output-port) (for-each fl1 '(%s)))" % (cid, body), chunk))
    res, procs = C.run_batches(b, IMPORTS, HEADER, [(c, f) for c, f, _ in cases], batch=12, env_extra=env, timeout=120,
                               heap="32M/256M")
    nW = nR = nX = 0
    for cid, form, chunk in cases:
        r = res.get(cid)
        if r is None or r.status in ("missing", "timeout"):
            rep.inconc("flonum-" + (r.status if r else "missing"), cid)
            continue
        lines = [l for l in r.text.split("\n") if l.strip()]
        if r.status == "crash":
            k = len(lines)
            bits = chunk[min(k, len(chunk) - 1)][0]
            rep.violation({"check": "W", "kind": "flonum", "mode": "crash"},
                          {"bits": hex(bits), "detail": r.detail})
        for (bits, klass), line in zip(chunk, lines):
            x = b2f(bits)
            isnan = x != x
            want = "nan" if isnan else bits
            wit = {"bits": "#x%016x" % bits, "python_repr": repr(x), "line": line, "class": klass,
                   "construct": "(bits->double %d %d)" % (bits >> 32, bits & 0xffffffff)}
            try:
                t, rest = line.split(" ", 1)
                o = parse_all(rest)[0]
                yn, yl, sw, ss, sp, sn, sv = o
            except Exception:
                rep.violation({"check": "W", "kind": "flonum", "mode": "unparsable-line"}, wit)
                continue
            rep.case(("flonum", klass, "nan" if isnan else "digits%d" % len(re.sub(r"[^0-9]", "", t.split("e")[0]).strip("0") or "0"),
                      "exp" if "e" in t else "fixed"))
            # (W) the text denotes x
            den = ftext_value(t)
            faithful = den == want
            nW += 1
            if not faithful:
                rep.violation({"check": "W", "kind": "flonum", "class": klass,
                               "ulp_error": "n/a" if den in (None, "nan") or isnan else min(ulp_distance(den, bits), 9)}, wit)
            # (R) native read of the writer's own text gives x back, bit for bit (any NaN for a NaN)
            nR += 1

            def val(y):
                if not (isinstance(y, list) and len(y) == 2):
                    return None
                v = (y[0] << 32) | y[1]
                return "nan" if b2f(v) != b2f(v) else v
            vn, vl = val(yn), val(yl)
            if vn != want:
                err = "n/a" if vn in (None, "nan") or isnan else ulp_distance(vn, bits)
                rep.violation({"check": "R", "kind": "flonum", "writer_faithful": faithful,
                               "ulp_error": err if err == "n/a" or err <= 2 else "big",
                               "range": "below-1e-300" if (not isnan and abs(x) < 1e-300) else "ordinary"}, wit)
            # (X) the library reader agrees with the native one; the library writers print the same text
            nX += 1
            if vl != vn:
                rep.violation({"check": "X", "kind": "flonum", "what": "readers-differ"}, wit)
            for name, same in (("write", sw), ("write-shared", ss), ("write-simple", sp), ("number->string", sn)):
                if same is not True:
                    rep.violation({"check": "X", "kind": "flonum", "what": "writer-text-differs", "writer": name}, wit)
            # string->number on the same text must agree with read
            if val(sv) != vn:
                rep.violation({"check": "X", "kind": "flonum", "what": "string->number-differs-from-read"}, wit)
    rep.count("flonums", len(work))
    rep.count("W_checks", nW)
    rep.count("R_checks", nR)
    rep.count("X_checks", nX)
    return procs


# ------------------------------------------------------------------------------------------------ data generators
def limbs_expr(n):
    s = -1 if n < 0 else 1
    n = abs(n)
    ls = []
    while True:
        ls.append(n & 0xffffff)
        n >>= 24
        if not n:
            break
    return "(big %d %s)" % (s, " ".join(map(str, ls)))


def int_expr(n):
    if abs(n) < (1 << 24):
        return str(n)                               # small fixnum literals are the alphabet everything is built from
    return limbs_expr(n)


def flo_expr(bits):
    return "(bits->double %d %d)" % (bits >> 32, bits & 0xffffffff)


NICE_FLO = [0.0, -0.0, 1.0, -1.0, 1.5, 0.1, -0.1, 2.5e-5, 1e21, 1e22, 1e-7, 123456.789, 3.141592653589793, 1e100, 5e-324,
            1.7976931348623157e308, float("inf"), float("-inf"), float("nan"), 0.5, 100.0, 1e10]

SYM_SPECIAL = ["+", "-", "...", "1+", "+i", "-i", "+inf.0", "-inf.0x", ".5a", "1/2", "1e3", "+1", "-", ".", "..", "a.b", "#foo",
               "a#", "", "|", "a|b", "a b", "A", "Hello", "x;y", "(", ")", "a(b", "'a", "`", ",", ",@", "\"", "a\\b", "\\",
               "\t", "a\nb", "1", "-1", "1.5", "+nan.0", "-nan.0", "+5i", "1+2i", "#t", "#f", "#\\a", "quote", "λ", "日本",
               "a\u0080b", "\U0001F600", "é", "#!eof", "{", "}", "[", "]", "a,b", "@", ",@x", "1@2", "+.5", "-.5e3",
               "1e", "e1", "-e", "+.", "-..", "1.", ".1.", "1/", "/2", "0x10", "#x10", "1_000", "NaN", "inf", "nil", "t"]

STR_SPECIAL = ["", "a", "\"", "\\", "\\\\", "a\"b", "\a\b\t\n\r", "|", "x|y", "\x00", "\x7f", "\x1b", " ", "  a  ", "\\n", "\\x41;",
               ";", "#", "'", "`", ",", "()", "#\\a", "\u0080", "é", "߿", "ࠀ", "￿", "\U00010000",
               "\U0010ffff", "퟿", "line1\nline2", "tab\there", "\r\n", "a\\\nb", "\x01\x02\x1f", "\u0085  ",
               " ", "﻿", "​", "é"]


class DataGen:
    def __init__(self, rng):
        self.rng = rng

    def rcp(self):
        r = self.rng
        k = r.random()
        if k < 0.55:
            return r.randrange(32, 127)
        if k < 0.65:
            return r.choice((0, 7, 8, 9, 10, 13, 27, 127, 34, 92, 124, 59, 35, 39, 96, 44, 40, 41, 32))
        if k < 0.75:
            return r.randrange(0x80, 0x800)
        if k < 0.85:
            c = r.randrange(0x800, 0x10000)
            return c if not 0xD800 <= c <= 0xDFFF else 0xE000
        if k < 0.95:
            return r.randrange(0x10000, 0x110000)
        return r.choice((0x80, 0x7ff, 0x800, 0xffff, 0x10000, 0x10ffff, 0xd7ff, 0xe000, 0xa0, 0x85, 0x2028, 0xfeff))

    def rstring(self):
        r = self.rng
        if r.random() < 0.3:
            return [ord(c) for c in r.choice(STR_SPECIAL)]
        return [self.rcp() for _ in range(r.choice((0, 1, 2, 3, 5, 8, 20)))]

    def rsymbol(self):
        r = self.rng
        k = r.random()
        if k < 0.4:
            return [ord(c) for c in r.choice(SYM_SPECIAL)]
        if k < 0.7:
            return [r.choice(b"abcxyz-+*/<=>!?$%&^_~.@0123456789ABC") for _ in range(r.randrange(1, 8))]
        if k < 0.85:
            # looks like a number with a twist
            base = r.choice(["12", "-3", "+4", "1.5", "1e5", "1/2", "+inf.0", "-nan.0", "+i", "1+2i", ".5", "-.5", "1e-3"])
            tw = r.choice(["a", "+", "-", ".", "e", "/", "i", "x", "_", "#", "|", " "])
            s = base + tw if r.random() < 0.6 else tw + base
            return [ord(c) for c in s]
        return [self.rcp() for _ in range(r.randrange(1, 6))]

    def rint(self):
        r = self.rng
        k = r.random()
        if k < 0.4:
            return r.randrange(-1000, 1000)
        if k < 0.6:
            e = r.choice((23, 24, 30, 31, 32, 61, 62, 63, 64, 65, 127, 128, 200, 1000))
            return r.choice((1, -1)) * ((1 << e) + r.choice((-1, 0, 1)))
        return r.choice((1, -1)) * r.getrandbits(r.choice((8, 30, 62, 64, 100, 300, 2000)))

    def rflo_bits(self):
        r = self.rng
        if r.random() < 0.6:
            return f2b(r.choice(NICE_FLO))
        return r.getrandbits(64)

    def leaf(self, kinds=None):
        """-> (model, scheme expr, class)"""
        r = self.rng
        k = r.choice(kinds or ("int", "int", "big", "ratio", "flo", "char", "str", "sym", "bool", "nil", "bv", "cpx"))
        if k == "int":
            n = r.randrange(-100, 100)
            return ("i", n), str(n), "int"
        if k == "big":
            n = self.rint()
            return ("i", n), int_expr(n), "int" if abs(n) < (1 << 62) else "bignum"
        if k == "ratio":
            while True:
                a, b_ = self.rint(), abs(self.rint())
                if b_ > 1:
                    break
            m = RD.mkexact(__import__("fractions").Fraction(a, b_))
            return m, "(/ %s %s)" % (int_expr(a), int_expr(b_)), "ratio" if m[0] == "q" else "int"
        if k == "flo":
            bits = self.rflo_bits()
            x = b2f(bits)
            return ("f", "nan" if x != x else bits), flo_expr(bits), "flonum"
        if k == "char":
            c = self.rcp()
            return ("c", c), "(integer->char %d)" % c, "char"
        if k == "str":
            s = self.rstring()
            return ("s", tuple(s)), "(S %s)" % " ".join(map(str, s)), "string"
        if k == "sym":
            s = self.rsymbol()
            return ("y", tuple(s)), "(Y %s)" % " ".join(map(str, s)), "symbol"
        if k == "bool":
            v = r.random() < 0.5
            return ("b", v), "#t" if v else "#f", "bool"
        if k == "nil":
            return ("e",), "(list)", "nil"
        if k == "bv":
            bs = [r.randrange(256) for _ in range(r.choice((0, 1, 3, 8)))]
            return ("u", tuple(bs)), "(bytevector %s)" % " ".join(map(str, bs)), "bytevector"
        # complex: both parts exact or both inexact; imaginary part never zero
        if r.random() < 0.5:
            a, b_ = self.rint(), self.rint() or 1
            if r.random() < 0.3:
                a, b_ = r.randrange(-5, 5), r.choice((1, -1, 2, -3))
            return ("z", ("i", a), ("i", b_)), "(make-rectangular %s %s)" % (int_expr(a), int_expr(b_)), "complex-exact"
        while True:
            ba, bb = self.rflo_bits(), self.rflo_bits()
            xa, xb = b2f(ba), b2f(bb)
            if xb == 0 or xa != xa or xb != xb:
                continue
            return (("z", ("f", ba), ("f", bb)), "(make-rectangular %s %s)" % (flo_expr(ba), flo_expr(bb)), "complex-inexact")

    def plain_leaf(self):
        r = self.rng
        k = r.randrange(6)
        if k == 0:
            n = r.randrange(-50, 50)
            return ("i", n), str(n)
        if k == 1:
            cps = [r.randrange(97, 123) for _ in range(r.randrange(1, 4))]
            return ("y", tuple(cps)), "(Y %s)" % " ".join(map(str, cps))
        if k == 2:
            cps = [r.randrange(97, 123) for _ in range(r.randrange(0, 4))]
            return ("s", tuple(cps)), "(S %s)" % " ".join(map(str, cps))
        if k == 3:
            c = r.randrange(97, 123)
            return ("c", c), "(integer->char %d)" % c
        if k == 4:
            v = r.random() < 0.5
            return ("b", v), "#t" if v else "#f"
        bits = f2b(r.choice((1.5, -0.25, 2.0, 100.0, 0.5)))
        return ("f", bits), flo_expr(bits)

    def tree(self, depth):
        """-> (model, expr, set of classes)"""
        r = self.rng
        if depth <= 0 or r.random() < 0.25:
            m, e, k = self.leaf()
            return m, e, {k}
        kind = r.choice(("list", "list", "list", "dotted", "vector", "quote"))
        n = r.choice((0, 1, 2, 2, 3, 4))
        kids = [self.tree(depth - 1) for _ in range(n)]
        classes = set().union(*[k[2] for k in kids]) if kids else set()
        if kind == "list" or (kind == "dotted" and n == 0):
            m = ("e",)
            for km, _, _ in reversed(kids):
                m = Node("p", [km, m])
            return m, "(list %s)" % " ".join(k[1] for k in kids), classes | {"list"}
        if kind == "dotted":
            tm, te, tk = self.leaf(("int", "sym", "str", "flo", "char", "bool", "bv"))
            m = tm
            e = te
            for km, ke, _ in reversed(kids):
                m = Node("p", [km, m])
                e = "(cons %s %s)" % (ke, e)
            return m, e, classes | {"dotted", tk}
        if kind == "vector":
            return Node("v", [k[0] for k in kids]), "(vector %s)" % " ".join(k[1] for k in kids), classes | {"vector"}
        # forms the writer may abbreviate: (quote x) etc., and near misses that it must not
        q = r.choice(("quote", "quasiquote", "unquote", "unquote-splicing"))
        sym = ("y", tuple(map(ord, q)))
        arity = r.choice((1, 1, 1, 0, 2))
        args = [self.tree(depth - 1) for _ in range(arity)]
        m = ("e",)
        for am, _, _ in reversed(args):
            m = Node("p", [am, m])
        m = Node("p", [sym, m])
        e = "(list (Y %s) %s)" % (" ".join(str(ord(c)) for c in q), " ".join(a[1] for a in args))
        cl = set().union(*[a[2] for a in args]) if args else set()
        return m, e, cl | {"quote-form" if arity == 1 else "quote-like"}

    def graph(self):
        """shared / circular structure: -> (model root, scheme expr, class string)"""
        r = self.rng
        n = r.randrange(1, 7)
        kinds = [r.choice(("p", "p", "v")) for _ in range(n)]
        sizes = [2 if k == "p" else r.choice((0, 1, 2, 3)) for k in kinds]
        nodes = [Node(k, [None] * s) for k, s in zip(kinds, sizes)]
        sets = []
        feats = set()
        for i, nd in enumerate(nodes):
            for j in range(len(nd.kids)):
                q = r.random()
                if q < 0.45:
                    # reference to a node: forward (tree-like), self or backward (cycle / sharing)
                    t = r.randrange(n) if r.random() < 0.5 else min(n - 1, i + 1)
                    nd.kids[j] = nodes[t]
                    ref = "n%d" % t
                    if t <= i:
                        feats.add("back-" + ("car" if (nd.kind == "p" and j == 0) else "cdr" if nd.kind == "p" else "vec"))
                elif q < 0.6 and nd.kind == "p" and j == 1:
                    nd.kids[j] = ("e",)
                    ref = "(list)"
                else:
                    # plain leaves only: what is under test here is structure (leaves are the business of the other families)
                    m, e = self.plain_leaf()
                    nd.kids[j] = m
                    ref = e
                if nd.kind == "p":
                    sets.append("(set-c%sr! n%d %s)" % ("a" if j == 0 else "d", i, ref))
                else:
                    sets.append("(vector-set! n%d %d %s)" % (i, j, ref))
        binds = " ".join("(n%d %s)" % (i, "(cons #f #f)" if k == "p" else "(make-vector %d #f)" % s)
                         for i, (k, s) in enumerate(zip(kinds, sizes)))
        expr = "(let (%s) %s n0)" % (binds, " ".join(sets))
        root = nodes[0]
        # classify: cyclic? shared?
        indeg = {}
        cyc = [False]

        def walk(x, onpath, seen):
            if not isinstance(x, Node):
                return
            indeg[id(x)] = indeg.get(id(x), 0) + 1
            if id(x) in onpath:
                cyc[0] = True
                return
            if id(x) in seen:
                return
            seen.add(id(x))
            onpath.add(id(x))
            for k in x.kids:
                walk(k, onpath, seen)
            onpath.discard(id(x))
        walk(root, set(), set())
        nlabels = sum(1 for v in indeg.values() if v > 1)
        klass = ("cyclic" if cyc[0] else "shared" if nlabels else "tree")
        # root-cause class of a known (srfi 38) writer defect: a labelled pair in cdr position whose own cdr is labelled too
        lab = {k for k, v in indeg.items() if v > 1}
        stst = False
        for nd in nodes:
            if id(nd) in indeg and nd.kind == "p":
                p_ = nd.kids[1]
                if isinstance(p_, Node) and p_.kind == "p" and id(p_) in lab:
                    q = p_.kids[1]
                    if isinstance(q, Node) and id(q) in lab:
                        stst = True
        if stst:
            feats.add("labelled-cdr-of-labelled-cdr")
        return root, expr, klass, min(nlabels, 6), tuple(sorted(feats))


# ------------------------------------------------------------------------------------------------ Python-side writer
def py_write(x, rng, seen=None, labels=None):
    """One of the many legal R7RS spellings of a datum of the model (trees only)."""
    if isinstance(x, Node):
        if x.kind == "v":
            return "#(" + " ".join(py_write(k, rng) for k in x.kids) + ")"
        items = []
        while isinstance(x, Node) and x.kind == "p":
            items.append(py_write(x.kids[0], rng))
            x = x.kids[1]
        sp = rng.choice((" ", " ", "  ", "\n", " #;x ", " #|c|# ", "\t"))
        if x == ("e",):
            return "(" + sp.join(items) + ")"
        return "(" + sp.join(items) + " . " + py_write(x, rng) + ")"
    t = x[0]
    if t == "i":
        return str(x[1]) if rng.random() < 0.9 else ("+%d" % x[1] if x[1] >= 0 else str(x[1]))
    if t == "q":
        return "%d/%d" % (x[1], x[2])
    if t == "f":
        if x[1] == "nan":
            return "+nan.0"
        v = b2f(x[1])
        if v in (float("inf"), float("-inf")):
            return "+inf.0" if v > 0 else "-inf.0"
        s = repr(v)
        k = rng.random()
        if k < 0.2 and "e" not in s and s.startswith("0."):
            return s[1:]                              # .5
        if k < 0.3 and "e" not in s and s.endswith(".0"):
            return s[:-1]                             # 1.
        if k < 0.4:
            return s.replace("e", "E")
        return s
    if t == "z":
        im = py_write(x[2], rng)
        if not im.startswith(("+", "-")):
            im = "+" + im
        return py_write(x[1], rng).lstrip("+") + im + "i"
    if t == "c":
        c = x[1]
        k = rng.random()
        names = {v: n for n, v in RD.NAMED.items()}
        if c in names and k < 0.6:
            return "#\\" + names[c]
        if k < 0.3 or c < 33 or c == 127:
            return "#\\x%x" % c
        return "#\\" + chr(c)
    if t == "s":
        out = ['"']
        for c in x[1]:
            k = rng.random()
            if c in (34, 92):
                out.append("\\" + chr(c))
            elif c in (7, 8, 9, 10, 13) and k < 0.6:
                out.append("\\" + {7: "a", 8: "b", 9: "t", 10: "n", 13: "r"}[c])
            elif k < 0.15 or c < 32 or c == 127:
                out.append("\\x%x;" % c)
            else:
                out.append(chr(c))
        return "".join(out) + '"'
    if t == "y":
        s = "".join(map(chr, x[1]))
        bare_ok = (s and all(ch not in RD.DELIMS and ch not in "'`,#\\{}[]" and ord(ch) > 32 and ord(ch) != 127 for ch in s)
                   and RD.parse_number(s) is None and s != "." and s.lower() == s)
        if bare_ok and rng.random() < 0.8:
            return s
        out = ["|"]
        for ch in s:
            c = ord(ch)
            if ch in "|\\":
                out.append("\\" + ch)
            elif c < 32 or c == 127 or rng.random() < 0.1:
                out.append("\\x%x;" % c)
            else:
                out.append(ch)
        return "".join(out) + "|"
    if t == "b":
        return rng.choice(("#t", "#true")) if x[1] else rng.choice(("#f", "#false"))
    if t == "e":
        return "()"
    if t == "u":
        return "#u8(" + " ".join(map(str, x[1])) + ")"
    raise ValueError(x)


MUT_ALPHA = list("()()#\\\"|;'`,.@ 0123456789e+-/xi=#tfu8an") + ["#;", "#|", "|#", "#0=", "#0#", "#1=", "#1#", "\\x", "#\\", "#u8(",
                                                                  "#e", "#x", "#i", "#d", "#b", "#!", ". ", " . "]


def mutate(text, rng):
    s = list(text)
    for _ in range(rng.choice((1, 1, 1, 2, 3))):
        k = rng.random()
        if k < 0.3 and s:
            del s[rng.randrange(len(s))]
        elif k < 0.65:
            s.insert(rng.randrange(len(s) + 1), rng.choice(MUT_ALPHA))
        elif k < 0.8 and s:
            s[rng.randrange(len(s))] = rng.choice(MUT_ALPHA)
        elif k < 0.9 and len(s) > 1:
            i = rng.randrange(len(s) - 1)
            s[i], s[i + 1] = s[i + 1], s[i]
        elif s:
            i = rng.randrange(len(s))
            j = min(len(s), i + rng.randrange(1, 6))
            s[i:i] = s[i:j]
    return "".join(s)


# ---- texts for (X): one named spelling / probe per text, placed in a few contexts, so that a disagreement has a stable name
CONTEXTS = [("top", "%s"), ("list", "(a %s b)"), ("vector", "#(1 %s)"), ("quoted", "'%s"), ("dotted-tail", "(a . %s)")]


def spellings(rng):
    """valid R7RS spellings: (feature, text)"""
    n = rng.randrange(2, 900)
    f = rng.choice(("5", "25", "3", "12"))
    w2, w3, w4 = chr(rng.randrange(0xa1, 0x7ff)), chr(rng.randrange(0x3041, 0x3090)), chr(rng.randrange(0x10000, 0x10ffff))
    return [
        ("float-leading-dot", ".%s" % f), ("float-neg-leading-dot", "-.%s" % f), ("float-trailing-dot", "%d." % n),
        ("float-upper-E", "%d.5E3" % n), ("float-plus-exponent", "%de+2" % n), ("float-exponent-no-dot", "%de-2" % n),
        ("float-leading-dot-exponent", ".%se2" % f), ("int-plus-sign", "+%d" % n), ("int-leading-zeros", "00%d" % n),
        ("ratio-unreduced", "%d/%d" % (2 * n, 4)), ("ratio-plus-sign", "+%d/7" % n), ("bool-long-true", "#true"),
        ("bool-long-false", "#false"), ("bool-upper", "#T"), ("char-hex", "#\\x%x" % rng.randrange(33, 0x2000)),
        ("char-hex-upper-x", "#\\X41"), ("char-name", "#\\" + rng.choice(sorted(RD.NAMED))), ("char-name-upper", "#\\SPACE"),
        ("char-raw-ascii", "#\\" + chr(rng.randrange(33, 127))), ("char-raw-w2", "#\\" + w2), ("char-raw-w3", "#\\" + w3),
        ("char-raw-w4", "#\\" + w4), ("char-paren", "#\\("), ("char-semicolon", "#\\;"), ("char-space-raw", "#\\ "),
        ("string-hex-escape", "\"a\\x%x;b\"" % rng.randrange(1, 0x3000)), ("string-mnemonic-escapes", "\"\\a\\b\\t\\n\\r\\\\\\\"\""),
        ("string-bar-escape", "\"a\\|b\""), ("string-line-continuation", "\"ab\\   \n   cd\""), ("string-raw-newline", "\"a\nb\""),
        ("string-raw-w2", "\"a%sb\"" % w2), ("string-raw-w3", "\"a%sb\"" % w3), ("string-raw-w4", "\"a%sb\"" % w4),
        ("string-empty", "\"\""), ("symbol-bars-plain", "|hello world|"), ("symbol-bars-hex", "|a\\x41;b|"),
        ("symbol-bars-empty", "||"), ("symbol-bars-mnemonic", "|a\\tb|"), ("symbol-upper", "Hello"), ("symbol-raw-w3", "sym" + w3),
        ("symbol-peculiar-plus", "+"), ("symbol-peculiar-dots", "..."), ("symbol-peculiar-arrow", "->x"), ("symbol-plus-dot", "+.x"),
        ("symbol-dot-dot", ".."), ("symbol-at", "+@"), ("bytevector-decimal", "#u8(0 %d 255)" % rng.randrange(256)),
        ("bytevector-hex", "#u8(#x0F #xff)"), ("bytevector-empty", "#u8()"), ("bytevector-upper", "#U8(1 2)"),
        ("radix-x", "#x%X" % n), ("radix-x-lower", "#x%x" % (n * 1000 + 0xabc)), ("radix-b", "#b%s" % bin(n)[2:]), ("radix-o", "#o%o" % n),
        ("radix-d", "#d%d" % n), ("radix-x-negative", "#x-%x" % n), ("radix-x-ratio", "#x%x/1f" % n), ("exact-prefix-decimal", "#e%d.%s" % (n, f)),
        ("inexact-prefix-ratio", "#i%d/4" % n), ("exact-radix", "#e#x%x" % n), ("radix-exact", "#x#e%x" % n), ("inexact-radix", "#i#x%x" % n),
        ("complex-rect", "%d+%di" % (n, n + 1)), ("complex-plus-i", "%d+i" % n), ("complex-minus-i", "-i"), ("complex-float", "1.5-2.5i"),
        ("complex-polar", "1@0"), ("inf", "+inf.0"), ("neg-inf", "-inf.0"), ("nan", "+nan.0"), ("neg-zero", "-0.0"),
        ("empty-list", "()"), ("empty-vector", "#()"), ("dotted-pair", "(%d . %d)" % (n, n + 1)), ("dotted-list", "(1 2 . 3)"),
        ("nested", "((1) #(2 (3)) \"s\")"), ("quote-abbrev", "'x"), ("quasiquote-abbrev", "`x"), ("unquote-abbrev", ",x"),
        ("unquote-splicing-abbrev", ",@x"), ("quote-of-list", "'(1 2)"), ("sep-newline", "(1\n2)"), ("sep-tab", "(1\t2)"),
        ("sep-return", "(1\r\n2)"), ("no-space-before-paren", "(1(2)3)"), ("no-space-string", "(1\"a\"2)"),
        ("line-comment", "(1 ; c )\n 2)"), ("datum-comment", "(1 #;(skip me) 2)"), ("datum-comment-atom", "(1 #;x 2)"),
        ("datum-comment-first", "#;x %d" % n), ("block-comment", "(1 #| c |# 2)"), ("block-comment-nested", "(1 #| a #| b |# c |# 2)"),
        ("block-comment-first", "#| c |# %d" % n), ("label-unused", "#0=(a b)"), ("label-shared", "(#0=(a) #0#)"),
        ("label-cycle-cdr", "#0=(a . #0#)"), ("label-cycle-car", "#0=(#0# b)"), ("label-cycle-vector", "#0=#(1 #0#)"),
        ("label-two", "(#0=(a) #1=(b) #0# #1#)"), ("label-multi-digit", "(#10=(a) #10#)"), ("label-atom", "(#0=foo #0#)"),
        ("label-string", "(#0=\"s\" #0#)"), ("fold-case-directive", "#!fold-case ABC"), ("no-fold-case-directive", "#!no-fold-case ABC"),
        ("brackets", "[1 2]"), ("braces-symbol", "{"), ("vector-in-list", "(#(1) #(2))"),
    ]


def probes(rng):
    """texts that are not valid data, or whose meaning is implementation specific: the two readers must still agree"""
    n = rng.randrange(2, 900)
    return [
        ("unterminated-list", "(1 2"), ("unterminated-vector", "#(1 2"), ("unterminated-string", "\"abc"), ("unterminated-bar", "|abc"),
        ("unterminated-block-comment", "#| abc"), ("extra-close", ")"), ("close-after-datum", "%d)" % n), ("empty-input", ""),
        ("only-whitespace", "  \n "), ("only-comment", "; c"), ("only-datum-comment", "#;x"), ("datum-comment-eof", "#;"),
        ("dot-alone", "."), ("dot-first", "( . 1)"), ("dot-last", "(1 . )"), ("dot-two-tails", "(1 . 2 3)"), ("dot-twice", "(1 . . 2)"),
        ("dot-in-vector", "#(1 . 2)"), ("hash-alone", "#"), ("hash-unknown", "#q"), ("hash-backslash-eof", "#\\"),
        ("char-unknown-name", "#\\spac"), ("char-hex-too-big", "#\\x110000"), ("char-hex-surrogate", "#\\xD800"), ("char-x-alone", "#\\x"),
        ("string-unknown-escape", "\"a\\qb\""), ("string-hex-no-semicolon", "\"a\\x41 b\""), ("string-hex-empty", "\"a\\x;b\""),
        ("string-hex-too-big", "\"\\x110000;\""), ("symbol-bar-inside", "a|b c|d"), ("symbol-hash-inside", "a#b"), ("symbol-trailing-dot", "ab."),
        ("number-two-dots", "1.2.3"), ("number-two-signs", "+-1"), ("number-double-minus", "--1"), ("number-exponent-alone", "1e"),
        ("number-exponent-sign-alone", "1e+"), ("number-ratio-zero-den", "1/0"), ("number-ratio-two-slashes", "1/2/3"),
        ("number-ratio-float-den", "1/2.5"), ("number-ratio-trailing-dot", "%d/3." % n), ("number-ratio-exponent", "1/2e3"),
        ("number-ratio-neg-den", "1/-2"), ("number-trailing-letters", "%dabc" % n), ("number-underscore", "1_000"),
        ("number-hex-without-prefix", "ff"), ("number-radix-bad-digit", "#b102"), ("number-radix-alone", "#x"),
        ("number-exact-inf", "#e+inf.0"), ("number-exact-nan", "#e+nan.0"), ("number-inf-no-sign", "inf.0"), ("number-inf-short", "+inf"),
        ("number-nan-upper", "+NaN.0"), ("number-i-alone", "i"), ("number-complex-two-i", "1+2ii"), ("number-complex-no-real-sign", "1+2"),
        ("number-polar-missing", "1@"), ("number-decimal-exactness-marks", "1#.#"), ("number-long-exponent", "1e400"),
        ("number-neg-long-exponent", "1e-400"), ("number-precision-marker", "1.5f0"), ("number-precision-marker-d", "1d3"),
        ("bool-trailing", "#t123"), ("bool-truex", "#truex"), ("bool-f-long-bad", "#fals"), ("bytevector-256", "#u8(256)"),
        ("bytevector-negative", "#u8(-1)"), ("bytevector-float", "#u8(1.5)"), ("bytevector-symbol", "#u8(a)"), ("bytevector-nested", "#u8((1))"),
        ("bytevector-dotted", "#u8(1 . 2)"), ("uvector-s8", "#s8(1 -2)"), ("uvector-f32", "#f32(1.5 2.5)"), ("uvector-u16", "#u16(1 2)"),
        ("uvector-bad", "#u7(1)"), ("label-undefined", "#0#"), ("label-self", "#0=#0#"), ("label-duplicate", "(#0=a #0=b)"),
        ("label-forward", "(#0# #0=a)"), ("label-no-datum", "(#0=)"), ("label-eof", "#0="), ("label-huge", "#99999999999999999999=a"),
        ("directive-unknown", "#!foo 1"), ("directive-eof", "#!eof 1"), ("shebang", "#! /bin/sh\n1"), ("quote-eof", "'"), ("quote-close", "(')"),
        ("unquote-splicing-eof", ",@"), ("brace-open", "{a}"), ("brace-record", "{a 1 2}"), ("bracket-mismatch", "(1 2]"), ("nul-char", "a\x00b"),
        ("formfeed-separator", "(1\x0c2)"), ("nbsp-separator", "(1\xa02)"), ("bom-first", "\ufeff1"), ("vertical-tab", "(1\x0b2)"),
        ("syntax-quote", "#'x"), ("syntax-quasi", "#`x"), ("syntax-unquote", "#,x"), ("syntax-unquote-splicing", "#,@x"),
    ]


FEATURES = [("datum-comment", r"#;"), ("block-comment", r"#\||\|#"), ("directive", r"#!"), ("brace", r"[{}]"),
            ("bracket", r"[\[\]]"), ("label", r"#\d+[=#]"), ("uvector", r"#[a-zA-Z]+\d+\("), ("bytevector-ish", r"#u|#v"),
            ("char", r"#\\"), ("hex-escape", r"\\x"), ("escape", r"\\"), ("bar", r"\|"), ("radix-prefix", r"#[eEiIxXoObBdD]"),
            ("hash-other", r"#[^(tf\\0-9]"), ("leading-dot-number", r"(^|[\s(])[+-]?\.\d"), ("trailing-dot-number", r"\d\.([\s)]|$)"),
            ("at", r"@"), ("quote-abbrev", r"['`,]"), ("string", r"\""), ("dot", r"\."), ("hash-bool", r"#[tf]"),
            ("number", r"\d")]


def feature_of(text):
    for name, pat in FEATURES:
        if re.search(pat, text):
            return name
    return "plain"


# ------------------------------------------------------------------------------------------------ judging helpers
def outcome(o):
    """(rdump ...) observation -> ("ok", model) | ("err", kind)"""
    if isinstance(o, list) and o and str(o[0]) == "ok":
        return "ok", RD.parse_gdump(o[1])
    if isinstance(o, list) and o and str(o[0]) == "err":
        return "err", str(o[1]) if not isinstance(o[1], list) else "raised"
    return "bad", repr(o)[:100]


def otag(oc):
    if oc[0] != "ok":
        return oc[0] if oc[0] != "err" else "err:" + oc[1]
    x = oc[1]
    return "ok:" + (x.kind if isinstance(x, Node) else x[0])


def text_of(cpl):
    return "".join(map(chr, cpl))


def char_class(cps):
    cl = set()
    for c in cps:
        if c in (34, 92, 124):
            cl.add("delim")
        elif c < 32 or c == 127:
            cl.add("ctrl")
        elif c < 128:
            cl.add("ascii")
        elif c < 0x800:
            cl.add("w2")
        elif c < 0x10000:
            cl.add("w3")
        else:
            cl.add("w4")
    return "+".join(sorted(cl)) or "empty"


def sym_class(cps):
    s = text_of(cps)
    if s == "":
        return "empty"
    if re.match(r"^\.\d", s):
        return "dot-digit-prefix"
    if s[0] == "`":
        return "backquote-first"
    if RD.parse_number(s) is not None:
        return "number-like"
    if re.match(r"^[+-]?(\d|\.\d)", s) or re.match(r"^[+-](inf|nan|i)", s, re.I) or s in ("+", "-", "...", ".", ".."):
        return "number-prefix"
    if any(ch in " \t\n\r()\";|'`,#\\{}[]" for ch in s):
        return "needs-bars"
    if any(ord(ch) < 32 or ord(ch) == 127 for ch in s):
        return "ctrl"
    if any(ord(ch) > 127 for ch in s):
        return "non-ascii"
    if s.lower() != s:
        return "upper"
    return "plain"


def detail_class(m):
    """finer class of a leaf datum for signatures"""
    if isinstance(m, Node):
        return m.kind
    if m[0] == "s":
        return char_class(m[1])
    if m[0] == "y":
        return sym_class(m[1])
    if m[0] == "c":
        return char_class([m[1]])
    if m[0] == "f":
        return "nan" if m[1] == "nan" else "inf" if b2f(m[1]) in (float("inf"), float("-inf")) else "finite"
    if m[0] == "z":
        return m[1][0] + m[2][0]
    return m[0]


KINDNAME = {"i": "integer", "q": "ratio", "f": "flonum", "z": "complex", "c": "char", "s": "string", "y": "symbol", "b": "bool",
            "e": "nil", "u": "bytevector", "p": "pair", "v": "vector", "eof": "eof", "other": "other"}


def first_difference(a, b):
    """Where do the model datum a and the datum b differ first?  -> dict(kind=, class=[, ulp_error=]) describing a there."""
    if isinstance(a, Node) and isinstance(b, Node) and a.kind == b.kind and len(a.kids) == len(b.kids):
        for x, y in zip(a.kids, b.kids):
            if not RD.tree_equal(x, y):
                return first_difference(x, y)
        return {"kind": "?", "class": "?"}
    if not isinstance(a, Node) and not isinstance(b, Node) and a[0] == "z" and b[0] == "z":
        for x, y in zip(a[1:], b[1:]):
            if x != y:
                return first_difference(x, y)
    ka = a.kind if isinstance(a, Node) else a[0]
    d = {"kind": KINDNAME.get(ka, ka), "class": detail_class(a)}
    if ka == "f" and not isinstance(b, Node) and b[0] == "f" and "nan" not in (a[1], b[1]):
        u = ulp_distance(a[1], b[1])
        d["ulp_error"] = u if u <= 2 else "big"
        d["range"] = "below-1e-300" if abs(b2f(a[1])) < 1e-300 else "ordinary"
    elif not isinstance(b, Node) and not isinstance(a, Node) and b[0] != a[0]:
        d["became"] = KINDNAME.get(b[0], b[0])
    elif isinstance(b, Node) != isinstance(a, Node):
        d["became"] = KINDNAME.get(b.kind if isinstance(b, Node) else b[0], "?")
    return d


def locate(m, got):
    """signature fields naming the datum at which `got` (a model datum, or None when the text could not be read) departs
    from the model m"""
    if got is None:
        if isinstance(m, Node):
            return {"kind": "tree", "class": "unreadable"}
        return {"kind": KINDNAME.get(m[0], m[0]), "class": detail_class(m), "became": "unreadable"}
    return first_difference(m, got)


def py_read(t, m, same):
    """(ok?, datum or None, note)"""
    try:
        d, blank = RD.read_one(t)
    except (RD.ReadError, RecursionError) as ex:
        return False, None, "error: %s" % ex
    if not blank:
        return False, None, "trailing text after the datum"
    return same(d, m), d, RD.show(d)[:400]


def x_sig(text, on, ol):
    sig = {"check": "X", "what": "readers-differ", "feature": feature_of(text),
           "native": otag(on) if on[0] == "ok" else on[0], "lib": otag(ol) if ol[0] == "ok" else ol[0]}
    if on[0] == ol[0] == "ok":
        d = first_difference(on[1], ol[1])
        sig["at"] = d["kind"] + "/" + str(d["class"])
    return sig


def agree(on, ol):
    return (on[0] == ol[0] == "ok" and RD.isomorphic(on[1], ol[1])) or (on[0] == ol[0] == "err")


def judge_rt(rep, case, res, counters):
    """one acyclic datum through W / R / X"""
    m, kind, klass = case["model"], case["kind"], case["class"]
    wit = {"form": case["form"][:3000], "expected": RD.show(m)[:600]}
    if res is None or res.status == "missing":
        rep.inconc("no-output", case["id"])
        return
    if res.status == "timeout":
        rep.inconc("timeout", case["id"])
        return
    if res.status == "crash":
        wit["detail"] = res.detail
        rep.violation({"check": "W", "kind": kind, "class": klass, "mode": "crash"}, wit)
        return
    try:
        o = parse_all(res.text)[0]
        if isinstance(o, list) and o and str(o[0]) == "err":
            raise ValueError("case raised")
        dx, tcps, rn, rl, aw, ash, asi, lc = o
        culprits = [(RD.parse_dump(d), sn, sl, same) for d, sn, sl, same in lc]
    except Exception:
        wit["observed"] = res.text[:800]
        rep.violation({"check": "W", "kind": kind, "class": klass, "mode": "error-or-unparsable"}, wit)
        return

    def blame(sig):
        """a failure located at a pair/vector/the whole tree is attributed to the first leaf that, written on its own, reads
        back as an error or as another kind of datum (else: as another value), when there is one"""
        if sig.get("kind") in ("tree", "pair", "vector") and culprits:
            c = sorted(culprits, key=lambda c: -c[1])[0][0]
            sig.update({"kind": KINDNAME.get(c[0], c[0]), "class": detail_class(c), "in_tree": True})
            sig.pop("became", None)
        return sig
    built = RD.parse_dump(dx)
    if not RD.tree_equal(built, m):
        rep.inconc("construction-mismatch", {"id": case["id"], "built": RD.show(built)[:300], "want": RD.show(m)[:300]})
        return
    rep.case((kind, klass))
    t = text_of(tcps)
    wit["text"] = t[:600]
    # (W) the native writer's text denotes x
    counters["W"] += 1
    w_ok, d, note = py_read(t, m, RD.tree_equal)
    if not w_ok:
        rep.violation(blame(dict(locate(m, d), check="W", writer="native")), dict(wit, python_reads=note))
    # (R) the native reader gives x back from the native writer's text
    counters["R"] += 1
    on = outcome(rn)
    if on[0] != "ok" or not RD.tree_equal(on[1], m):
        w = dict(wit, native_read=otag(on) + " " + (RD.show(on[1])[:400] if on[0] == "ok" else ""))
        rsig = blame(dict(locate(m, on[1] if on[0] == "ok" else None), check="R"))
        wsig = blame(dict(locate(m, d))) if not w_ok else None
        # the writer is blamed only when it failed on the very datum the reader result departs at
        rsig["writer_faithful"] = w_ok or (wsig.get("kind"), wsig.get("class")) != (rsig.get("kind"), rsig.get("class"))
        rep.violation(rsig, w)
    # (X) both readers agree on that text
    counters["X"] += 1
    ol = outcome(rl)
    if not agree(on, ol):
        w = dict(wit, native_read=otag(on) + " " + (RD.show(on[1])[:400] if on[0] == "ok" else ""),
                 lib_read=otag(ol) + " " + (RD.show(ol[1])[:400] if ol[0] == "ok" else ""))
        sig = x_sig(t, on, ol)
        dis = [c for c in culprits if c[3] is not True]
        if dis:
            # a leaf on which the two readers disagree when it stands alone in a list: name it instead of the text feature
            sig = {"check": "X", "what": "readers-differ", "native": on[0], "lib": ol[0],
                   "culprit": KINDNAME.get(dis[0][0][0], dis[0][0][0]) + "/" + str(detail_class(dis[0][0]))}
        rep.violation(sig, w)
    # (X) the library writers' texts denote x too
    for name, a in (("write", aw), ("write-shared", ash), ("write-simple", asi)):
        if a is True:
            continue
        counters["XW"] += 1
        t2 = text_of(a)
        ok2, d2, note2 = py_read(t2, m, RD.tree_equal)
        if not ok2:
            rep.violation(blame(dict(locate(m, d2), check="W", writer=name)), dict(wit, lib_text=t2[:600], python_reads=note2))


def judge_rtg(rep, case, res, counters):
    m = case["model"]
    sig0 = {"kind": "graph", "class": case["class"]}
    wit = {"form": case["form"][:3000], "expected": RD.show(m)[:600]}
    if res is None or res.status == "missing":
        rep.inconc("no-output", case["id"])
        return
    if res.status == "timeout":
        wit["note"] = "writer or reader did not terminate"
        rep.violation(dict(sig0, check="W", mode="timeout"), wit)
        return
    if res.status == "crash":
        wit["detail"] = res.detail
        rep.violation(dict(sig0, check="W", mode="crash"), wit)
        return
    try:
        o = parse_all(res.text)[0]
        gx, ts, rns, rls, tw, rnw, rlw = o
        built = RD.parse_gdump(gx)
    except Exception:
        wit["observed"] = res.text[:800]
        rep.violation(dict(sig0, check="W", mode="error-or-unparsable"), wit)
        return
    if not RD.isomorphic(built, m):
        rep.inconc("construction-mismatch", case["id"])
        return
    rep.case(("graph", case["class"], case["labels"], case["feats"]))
    for wname, tc, rn, rl, same in (("write-shared", ts, rns, rls, RD.isomorphic), ("write", tw, rnw, rlw, RD.bisimilar)):
        t = text_of(tc)
        w = dict(wit, text=t[:600], writer=wname)
        counters["W"] += 1
        w_ok, d, note = py_read(t, m, same)
        if not w_ok:
            # leaves are judged by the tree family; here the structure is the point.  Is it only a leaf that differs?
            leaf = d is not None and not RD.bisimilar(d, m)
            sig = dict(sig0, check="W", writer=wname, labels=case["labels"], what="leaf" if leaf else "structure",
                       labelled_cdr_of_labelled_cdr="labelled-cdr-of-labelled-cdr" in case["feats"])
            if leaf:
                sig.update(first_difference_graph(m, d))
            rep.violation(sig, dict(w, python_reads=note))
        counters["R"] += 1
        on, ol = outcome(rn), outcome(rl)
        # (R) for the library pair: (scheme read) on the text (scheme write) produced; the native reader enters through (X)
        if ol[0] != "ok" or not same(ol[1], m):
            w2 = dict(w, lib_read=otag(ol) + " " + (RD.show(ol[1])[:400] if ol[0] == "ok" else ""))
            leaf = ol[0] == "ok" and not RD.bisimilar(ol[1], m)
            sig = dict(sig0, check="R", writer=wname, writer_faithful=w_ok, what="leaf" if leaf else "structure",
                       result=ol[0], labelled_cdr_of_labelled_cdr="labelled-cdr-of-labelled-cdr" in case["feats"])
            if leaf:
                sig.update(first_difference_graph(m, ol[1]))
            else:
                sig["feats"] = "+".join(case["feats"])
            rep.violation(sig, w2)
        counters["X"] += 1
        if not agree(on, ol):
            w2 = dict(w, native_read=otag(on) + " " + (RD.show(on[1])[:400] if on[0] == "ok" else ""),
                      lib_read=otag(ol) + " " + (RD.show(ol[1])[:400] if ol[0] == "ok" else ""))
            sig = {"check": "X", "what": "readers-differ", "feature": feature_of(t),
                   "native": otag(on) if on[0] == "ok" else on[0], "lib": otag(ol) if ol[0] == "ok" else ol[0]}
            if on[0] == ol[0] == "ok":
                sig["at"] = "/".join(str(v) for v in first_difference_graph(on[1], ol[1]).values())
            rep.violation(sig, w2)


def first_difference_graph(a, b):
    """like first_difference, on possibly cyclic graphs (simultaneous walk, visited pairs cut cycles)"""
    seen = set()
    stack = [(a, b)]
    while stack:
        x, y = stack.pop()
        if isinstance(x, Node) and isinstance(y, Node) and x.kind == y.kind and len(x.kids) == len(y.kids):
            if (id(x), id(y)) in seen:
                continue
            seen.add((id(x), id(y)))
            stack.extend(reversed(list(zip(x.kids, y.kids))))
            continue
        if isinstance(x, Node) or isinstance(y, Node):
            return {"kind": "structure", "class": (x.kind if isinstance(x, Node) else x[0])}
        if x != y:
            return first_difference(x, y)
    return {"kind": "sharing", "class": "-"}


def judge_x2(rep, case, res, counters):
    wit = {"text": case["text"][:600], "form": case["form"][:1500], "origin": case["origin"]}
    sig0 = {"check": "X", "kind": "text", "origin": case["origin"], "name": case["name"], "context": case["context"]}
    if res is None or res.status == "missing":
        rep.inconc("no-output", case["id"])
        return
    if res.status == "timeout":
        # both readers run in one case process: an expired limit says nothing about their agreement (seen: a 23-digit
        # integer with an exponent of millions, which both readers turn into an exact bignum)
        rep.inconc("timeout", "%s %s" % (case["id"], case["text"][:80]))
        return
    if res.status == "crash":
        wit["detail"] = res.detail
        rep.violation(dict(sig0, what="crash", how=(res.detail or {}).get("how")), wit)
        return
    if case["origin"] == "mutated":
        # the name of a mutated text is only the first construct found in it; two root causes that are listed findings are
        # recognisable in the text itself and get their own signature fields, so that the entries can be narrow
        sig0["hex_unterminated"] = bool(re.search(r"\\[xX][0-9a-fA-F]*(?![0-9a-fA-F;])", case["text"]))
        sig0["label_above_16"] = any(int(m_) > 16 for m_ in re.findall(r"#(\d{1,30})[=#]", case["text"]))
    try:
        o = parse_all(res.text)[0]
        on, ol = outcome(o[0]), outcome(o[1])
    except Exception:
        wit["observed"] = res.text[:600]
        rep.violation(dict(sig0, what="unparsable"), wit)
        return
    counters["X"] += 1
    rep.case(("text", case["origin"], case["name"], case["context"], on[0]))
    if not agree(on, ol):
        wit["native_read"] = otag(on) + " " + (RD.show(on[1])[:300] if on[0] == "ok" else "")
        wit["lib_read"] = otag(ol) + " " + (RD.show(ol[1])[:300] if ol[0] == "ok" else "")
        rep.violation(dict(sig0, what="readers-differ", native=otag(on) if on[0] == "ok" else on[0],
                           lib=otag(ol) if ol[0] == "ok" else ol[0]), wit)


# ------------------------------------------------------------------------------------------------ char sweep (inside chibi)
def char_sweep_form(cid, lo, hi, stride):
    """every scalar value: native write -> (W) -> native read; every stride-th one (and all below U+1000) additionally
    through the library pair, the cross pairs, and embedded in a string and in a symbol"""
    return r"""(%%case* %s (flush-output-port)
 (let lp ((cp %d) (n 0) (bad 0) (shown '()))
   (cond
    ((>= cp %d) (%%obs (list 'swept n 'bad bad)))
    ((and (>= cp #xD800) (<= cp #xDFFF)) (lp #xE000 n bad shown))
    (else
     (let* ((c (integer->char cp))
            (full (or (< cp #x1000) (= 0 (modulo cp %d))))
            (t1 (w->s native-write c))
            (flags (if (not full)
                       (list (char-text-ok? t1 cp) (eqv? (rd1 native-read t1) c) #t #t #t #t #t #t #t #t #t #t #t #t)
                       (let* ((s (string #\a c #\b))
                              (y (string->symbol s))
                              (t2 (w->s write c))
                              (ts1 (w->s native-write s)) (ts2 (w->s write s))
                              (ty1 (w->s native-write y)) (ty2 (w->s write y)))
                         (list (char-text-ok? t1 cp) (eqv? (rd1 native-read t1) c) (eqv? (rd1 read t1) c)
                               (char-text-ok? t2 cp) (eqv? (rd1 read t2) c) (eqv? (rd1 native-read t2) c)
                               (equal? (rd1 native-read ts1) s) (equal? (rd1 read ts1) s)
                               (equal? (rd1 read ts2) s) (equal? (rd1 native-read ts2) s)
                               (eq? (rd1 native-read ty1) y) (eq? (rd1 read ty1) y)
                               (eq? (rd1 read ty2) y) (eq? (rd1 native-read ty2) y)))))
            (ok (not (memq #f flags))))
       ;; print the first failure of every distinct flag pattern (at most 6 patterns per range)
       (if (and (not ok) (not (member flags shown)) (< (length shown) 6))
           (%%obs (list 'fail cp flags (cps t1))))
       (lp (+ cp 1) (+ n 1) (if ok bad (+ bad 1))
           (if (and (not ok) (not (member flags shown)) (< (length shown) 6)) (cons flags shown) shown)))))))""" % (cid, lo, hi, stride)


SWEEP_HEADER = r"""
(define (digit-value* ch)
  (let ((n (char->integer ch)))
    (cond ((<= 48 n 57) (- n 48)) ((<= 97 n 102) (- n 87)) ((<= 65 n 70) (- n 55)) (else #f))))
(define (rd1 reader t) (let ((r (%try (lambda () (list (reader (open-input-string t))))))) (if (null? (cdr r)) (car r) '%error)))
;; (W) for a character, decided on the text itself: #\ followed by the character, by an R7RS name, or by x<hex>
(define (char-text-ok? t cp)
  (let ((len (string-length t)))
    (and (>= len 3) (char=? (string-ref t 0) #\#) (char=? (string-ref t 1) #\\)
         (or (and (= len 3) (= (char->integer (string-ref t 2)) cp))
             (let ((name (substring t 2 len)))
               (cond ((assoc name '(("alarm" . 7) ("backspace" . 8) ("delete" . 127) ("escape" . 27) ("newline" . 10)
                                    ("null" . 0) ("return" . 13) ("space" . 32) ("tab" . 9)))
                      => (lambda (p) (= (cdr p) cp)))
                     ((and (char=? (string-ref name 0) #\x) (> (string-length name) 1))
                      (let hx ((i 1) (v 0))
                        (if (= i (string-length name)) (= v cp)
                            (let ((d (digit-value* (string-ref name i))))
                              (and d (hx (+ i 1) (+ (* v 16) d)))))))
                     (else #f)))))))
"""


def cp_class(cp):
    if cp < 32 or cp == 127:
        return "ctrl"
    if cp < 128:
        return "ascii"
    if cp < 0x800:
        return "w2"
    if cp < 0x10000:
        return "w3"
    return "w4"


def run_char_sweep(rep, b, tier, env, counters):
    cuts = [0, 0x100, 0x800, 0x4000, 0x10000, 0x30000, 0x60000, 0x90000, 0xC0000, 0xE0000, 0x110000]
    if tier != "quick":
        cuts = [0, 0x100, 0x800] + list(range(0x4000, 0x110000, 0x4000)) + [0x110000]
    sw = [("cw%d" % i, cuts[i], cuts[i + 1]) for i in range(len(cuts) - 1)]
    stride = 64 if tier == "quick" else 1
    rep.extra["sweep_full_stride"] = stride
    res, procs = C.run_batches(b, IMPORTS, HEADER + SWEEP_HEADER, [(c, char_sweep_form(c, lo, hi, stride)) for c, lo, hi in sw],
                               batch=1, env_extra=env, timeout=900, heap="32M/256M")
    swept = 0
    for cid, lo, hi in sw:
        r = res.get(cid)
        n = hi - lo - max(0, min(hi, 0xE000) - max(lo, 0xD800))
        if r is None or r.status in ("missing", "timeout"):
            rep.inconc("char-sweep-" + (r.status if r else "missing"), cid)
            continue
        wit = {"range": [hex(lo), hex(hi)], "observed": r.text.strip()[:1500]}
        if r.status == "crash":
            wit["detail"] = r.detail
            rep.violation({"check": "R", "kind": "char-sweep", "mode": "crash"}, wit)
            continue
        lines = [l for l in r.text.split("\n") if l.strip()]
        rep.case(("char-sweep", lo))
        seen = set()
        FLAGS = [("W", "char", "native"), ("R", "char", "native"), ("X", "char", "lib-reads-native-text"),
                 ("W", "char", "lib"), ("R", "char", "lib"), ("X", "char", "native-reads-lib-text"),
                 ("R", "string", "native"), ("X", "string", "lib-reads-native-text"), ("R", "string", "lib"),
                 ("X", "string", "native-reads-lib-text"), ("R", "symbol", "native"), ("X", "symbol", "lib-reads-native-text"),
                 ("R", "symbol", "lib"), ("X", "symbol", "native-reads-lib-text")]
        for l in lines:
            if not l.startswith("(fail"):
                continue
            o = parse_all(l)[0]
            cp, flags = o[1], o[2]
            w = {"cp": hex(cp), "native text of the char": text_of(o[3]), "flags": flags,
                 "flag order": "char: W/R/X(lib reads native text), lib W/R, X(native reads lib text); string a<c>b: R native, X, "
                               "R lib, X; symbol a<c>b likewise"}
            for (chk, kind, pair), fl in zip(FLAGS, flags):
                if fl is True:
                    continue
                sg = {"check": chk, "kind": kind, "class": cp_class(cp), "pair": pair, "sweep": True}
                k = tuple(sorted(sg.items()))
                if k not in seen:
                    seen.add(k)
                    rep.violation(sg, w)
        last = lines[-1] if lines else ""
        mm = re.match(r"\(swept (\d+) bad (\d+)\)", last)
        if not mm or int(mm.group(1)) != n:
            rep.violation({"check": "R", "kind": "char-sweep", "mode": "count"}, wit)
        else:
            swept += n
            rep.count("char_sweep_failures", int(mm.group(2)))
    rep.extra["scalar_values_swept"] = swept
    counters["W"] += swept
    counters["R"] += swept
    counters["X"] += swept // stride
    return procs


# ------------------------------------------------------------------------------------------------ check
def _unknown(rep):
    kf, _ = RP.load_findings(rep.prop)
    return sum(1 for sig, _w in rep.violations if not any(RP._match(f["match"], sig) for f in kf))


def check(rep, tier, seed):
    rng = random.Random(seed * 7919 + 8)
    b = B.ensure("hooks")
    rep.builds.add("hooks")
    quick = tier == "quick"
    env = {"CHIBI_VERIF_HEAPCHECK": 1}
    procs = []
    counters = {"W": 0, "R": 0, "X": 0, "XW": 0}

    procs += run_flonums(rep, b, rng, tier, env)

    g = DataGen(rng)
    cases = []
    n_leaf = 4000 if quick else 40000
    n_tree = 2500 if quick else 30000
    n_graph = 1500 if quick else 20000
    n_text = 0 if quick else 20000          # random mutations of python-printed texts: thorough tier only
    for i in range(n_leaf):
        kind = ("str", "sym", "char", "big", "ratio", "cpx", "flo", "bv")[i % 8]
        m, e, klass = g.leaf((kind,))
        cid = "l%d" % i
        cases.append({"id": cid, "fam": "rt", "model": m, "kind": klass, "class": detail_class(m),
                      "form": "(%%case* %s (flush-output-port) (rt %s))" % (cid, e)})
    for i in range(n_tree):
        m, e, cl = g.tree(rng.choice((1, 2, 3, 4, 5, 6)))
        cid = "t%d" % i
        cases.append({"id": cid, "fam": "rt", "model": m, "kind": "tree", "class": "+".join(sorted(cl))[:60],
                      "form": "(%%case* %s (flush-output-port) (rt %s))" % (cid, e)})
    for i in range(n_graph):
        m, e, klass, nl, feats = g.graph()
        cid = "g%d" % i
        cases.append({"id": cid, "fam": "rtg", "model": m, "class": klass, "labels": nl, "feats": feats,
                      "form": "(%%case* %s (flush-output-port) (rtg %s))" % (cid, e)})
    k = 0
    for origin, table in (("spelling", spellings(rng)), ("probe", probes(rng))):
        for name, text in table:
            for cname, ctx in CONTEXTS:
                if origin == "probe" and cname in ("quoted", "dotted-tail") and rng.random() < 0.5:
                    continue
                t = ctx % text
                cid = "x%d" % k
                k += 1
                cases.append({"id": cid, "fam": "x2", "text": t, "origin": origin, "name": name, "context": cname,
                              "form": "(%%case* %s (flush-output-port) (x2 %s))" % (cid, " ".join(str(ord(c)) for c in t))})
    for i in range(n_text):
        m, e, cl = g.tree(rng.choice((0, 1, 2, 3)))
        t = mutate(py_write(m, rng), rng)
        cid = "x%d" % k
        k += 1
        cases.append({"id": cid, "fam": "x2", "text": t, "origin": "mutated", "name": feature_of(t), "context": "-",
                      "form": "(%%case* %s (flush-output-port) (x2 %s))" % (cid, " ".join(str(ord(c)) for c in t))})
    # interleave the families and run in chunks (a small one first): a badly broken tree (writer loops, crashes) stops early
    fams = {}
    for c in cases:
        if c.get("origin") != "mutated":
            fams.setdefault(c["id"][0], []).append(c)
    order = []
    for i in range(max(len(v) for v in fams.values())):
        for v in fams.values():
            if i < len(v):
                order.append(v[i])
    n_core = len(order)
    # randomly mutated texts (thorough tier) come last and never stop the run: the reader disagreements they find are
    # reported, but they are an open-ended exploration
    order += [c for c in cases if c.get("origin") == "mutated"]
    res = {}
    bounds = [0, 400] + list(range(3400, len(order), 3000)) + [len(order)]
    for c0, c1 in zip(bounds, bounds[1:]):
        if c1 <= c0:
            continue
        r1, ps = C.run_batches(b, IMPORTS, HEADER, [(c["id"], c["form"]) for c in order[c0:c1]], batch=40 if c0 == 0 else 150,
                               env_extra=env, timeout=30, heap="32M/256M")
        res.update(r1)
        procs += ps
        for c in order[c0:c1]:
            r = r1.get(c["id"])
            if c["fam"] == "rt":
                judge_rt(rep, c, r, counters)
            elif c["fam"] == "rtg":
                judge_rtg(rep, c, r, counters)
            else:
                judge_x2(rep, c, r, counters)
        if c1 <= n_core and _unknown(rep) >= 60:
            rep.extra["stopped_early"] = "after %d of %d data cases: %d unexplained violations" % (c1, len(order), _unknown(rep))
            break
    if "__ghost__" in res:
        rep.violation({"kind": "ghost-output"}, {"text": res["__ghost__"].text})
    for c in cases[:3] + cases[n_leaf:n_leaf + 2] + cases[n_leaf + n_tree:n_leaf + n_tree + 2]:
        r = res.get(c["id"])
        rep.sample({"form": c["form"][:600], "expected": RD.show(c["model"])[:300], "observed": r.text.strip()[:400] if r else None})

    if "stopped_early" not in rep.extra:
        procs += run_char_sweep(rep, b, tier, env, counters)

    for k, v in counters.items():
        rep.count(k + "_checks" if k in ("W", "R", "X") else "library_writer_texts_checked", v)
    rep.extra["data"] = {"leaves": n_leaf, "trees": n_tree, "graphs": n_graph,
                         "named_texts": sum(1 for c in cases if c["fam"] == "x2" and c["origin"] != "mutated"), "mutated_texts": n_text}
    for p in procs:
        for l in p.log_lines("HEAPCHECK-FAIL"):
            rep.violation({"check": "heapcheck", "mode": l.split()[1]}, {"line": l})
        for d in p.log_kv("HEAPCHECK-SUMMARY"):
            rep.count("heap_checks", d.get("runs", 0))
            rep.count("heap_objects_checked", d.get("objects", 0))
    rep.extra["processes"] = len(procs)
    rep.rule = ("data built by constructors only (flonums from bits: all half-precision patterns widened, 2^k +-1 ulp, subnormals, "
                "14-18 digit decimals, notation switch points, random bit patterns; bignums from limbs; strings/symbols/chars "
                "from code points incl. every escape and number-like symbol; trees to depth 6; graphs with up to 6 labels); "
                "each datum gives a W, an R and an X check; python-printed and mutated texts give X checks; every scalar value is "
                "swept inside chibi as char, inside a string and inside a symbol. distinct = (kind, class of the datum: digit "
                "count/notation, escape class, symbol class, tree leaf kinds, graph class x labels x back-edge kinds, text "
                "feature x reader outcome)")
    rep.assumptions = ["Python float()/repr are correctly rounded; the independent reader vf/props/c08_read.py implements the R7RS "
                       "datum grammar (lenient about which bare tokens are identifiers: anything that is not a number)",
                       "observations use char->integer/string->list, quotient/remainder on exact integers, the (scheme bytevector) "
                       "IEEE accessors and write of small integers and lists",
                       "(X) demands agreement of the two readers on the first datum of a text, not correctness on foreign texts"]
