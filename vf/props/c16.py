"""C16 -- weak references and finalizers track reachability exactly (DESIGN.md section 3, C16).

(1) Ephemeron histories against a reachability model (strong roots = keys the program still holds in a
    global vector; an ephemeron's value edge counts only while its key is alive), observed after K=3
    rounds of {scrub VM temporaries, (gc)}, with and without forced-collection injection (hook H2) and
    the heap checker (hook H3: a dangling weak/value slot is reported directly).
(2) File-descriptor lifecycle: a program that keeps dropping unclosed ports under `ulimit -n 64`,
    keeps some ports and reads them at the end, closes some twice; run under strace: any close() that
    fails with EBADF is a double release, EMFILE reaching the program is exhaustion, kept ports must
    still deliver their contents, and the open-descriptor count must return to its base.
"""
import os
import random
import re
import resource
import shutil

from .. import build as B
from .. import cases as C
from .. import run as R
from ..sexpr import Sym

IMPORTS = ("(import (scheme base) (scheme write) (scheme process-context) (srfi 9) "
           "(chibi weak) (only (chibi ast) gc))")

HEADER = r"""
(define-record-type box (make-box v) box? (v box-v))
(define N 48)
(define held (make-vector N #f))
(define ephs (make-vector N #f))
(define expect (make-vector N #f))
;; keys are made in a non-tail helper that returns, so that no frame of the caller holds them
(define (fresh-key kind i)
  (case kind
    ((str) (string-append "key" (number->string i)))
    ((pair) (list 'key i))
    ((rec) (make-box i))
    ((big) (expt 7 (+ 40 i)))
    ((vec) (make-vector 3 i))
    (else (error "kind" kind))))
(define (scrub n) (let lp ((i 0) (acc 0)) (if (< i n) (lp (+ i 1) (+ acc (string-length (number->string (* i i))))) acc)))
;; (mk i kind hold? vkind ref): ephemeron i with a fresh key; value = plain data | data containing the key itself |
;; the KEY OBJECT of ephemeron `ref` (chain)
(define (mk! i kind hold? vkind)
  (let* ((k (fresh-key kind i))
         (v (case vkind ((plain) (list 'val i)) ((self) (list 'val i k)) ((big) (make-vector 300 i)) (else (list 'val i)))))
    (if hold? (vector-set! held i k))
    (vector-set! expect i (case vkind ((plain) (list 'val i)) ((self) 'self) ((big) 'big) (else (list 'val i))))
    (vector-set! ephs i (make-ephemeron k v))
    0))
;; chained: key of ephemeron i is the *value object* of ephemeron j (alive only while j's key is alive)
(define (mk-chain! i j)
  (let ((e (vector-ref ephs j)))
    (vector-set! expect i (list 'val i))
    (vector-set! ephs i (make-ephemeron (ephemeron-value e) (list 'val i)))
    0))
(define (value-ok? i)
  (let* ((e (vector-ref ephs i)) (v (ephemeron-value e)) (x (vector-ref expect i)))
    (cond ((eq? x 'self) (and (pair? v) (= 3 (length v)) (eq? (caddr v) (ephemeron-key e)) (equal? (cadr v) i)))
          ((eq? x 'big) (and (vector? v) (= 300 (vector-length v)) (eqv? (vector-ref v 0) i) (eqv? (vector-ref v 299) i)))
          (else (equal? v x)))))
(define (snapshot)
  (let lp ((i (- N 1)) (acc '()))
    (if (< i 0) acc
        (lp (- i 1)
            (let ((e (vector-ref ephs i)))
              (if e
                  (cons (list i (if (ephemeron-broken? e) 1 0) (if (ephemeron-key e) 1 0)
                              (if (ephemeron-broken? e) (if (ephemeron-value e) 1 0) (if (value-ok? i) 2 3))
                              (if (and (vector-ref held i) (not (eq? (vector-ref held i) (ephemeron-key e)))) 1 0))
                        acc)
                  acc))))))
(define junkv (make-vector 8 #f))
(define (make-junk n) (let lp ((i 0) (acc '())) (if (< i n) (lp (+ i 1) (cons (make-vector (modulo i 3) i) acc)) acc)))
(define (settle rounds) (do ((r 0 (+ r 1))) ((= r rounds)) (scrub 60) (gc)))
(define (run-eph ops)
  (vector-fill! held #f) (vector-fill! ephs #f) (vector-fill! expect #f) (vector-fill! junkv #f)
  (for-each
   (lambda (op)
     (case (car op)
       ((mk) (+ 1 (mk! (cadr op) (caddr op) (cadddr op) (car (cddddr op)))))
       ((chain) (+ 1 (mk-chain! (cadr op) (caddr op))))
       ((drop) (vector-set! held (cadr op) #f))
       ((junk) (vector-set! junkv (cadr op) (make-junk (caddr op))))
       ((unjunk) (vector-set! junkv (cadr op) #f))
       ((gc) (gc))
       ((obs) (settle 3) (%obs (cons (cadr op) (snapshot))))))
   ops))
"""

KINDS = ["str", "pair", "rec", "big", "vec"]


def gen_history(rng, n=48):
    """ops + model.  Model state: held set, eph[i] = (key-id, vkind); chain i->j: key of i is value of j."""
    ops = []
    held = set()
    info = {}
    chain = {}
    idx = list(range(n))
    rng.shuffle(idx)
    nmk = rng.randrange(8, n - 8)
    made = []
    for i in idx[:nmk]:
        kind = rng.choice(KINDS)
        hold = rng.random() < 0.5
        vkind = rng.choice(["plain", "self", "self", "big"])
        ops.append(["mk", i, kind, "#t" if hold else "#f", vkind])
        info[i] = vkind
        if hold:
            held.add(i)
        made.append(i)
        if rng.random() < 0.1:
            ops.append(["gc"])
    for i in idx[nmk:]:
        cands = [j for j in made if j in held and j not in chain]     # the target's key must be alive now
        if rng.random() < 0.7 and cands:
            j = rng.choice(cands)
            ops.append(["chain", i, j])
            chain[i] = j
            made.append(i)
    snaps = []

    def model():
        alive = {}
        # ephemeron i's key alive?
        for i in info:
            alive[i] = i in held
        changed = True
        # chained ephemeron i: its key is the value object of j, alive iff j's key alive
        order = [i for i in made if i in chain]
        for _ in range(len(order) + 1):
            for i in order:
                alive[i] = alive.get(chain[i], False)
        return dict(alive)

    obs = 0
    ops.append(["obs", obs])
    snaps.append(model())
    for rnd in range(rng.randrange(1, 4)):
        for i in list(held):
            if rng.random() < 0.4:
                ops.append(["drop", i])
                held.discard(i)
        obs += 1
        ops.append(["obs", obs])
        snaps.append(model())
    return {"ops": ops, "snaps": snaps, "chain": chain, "info": info}


def gen_layout_history(rng, n=48):
    """Few ephemerons on a deliberately fragmented heap: small ephemerons fall into low holes opened by dropping junk and
    collecting, large values go to the tail of the heap, so that a dependent ephemeron can sit at a LOWER address than the
    ephemeron whose value keeps its key alive (the order in which a heap scan meets them is then reversed)."""
    ops = []
    held = set()
    info = {}
    chain = {}
    made = []
    free = list(range(n))
    rng.shuffle(free)
    nchains = rng.randrange(1, 4)
    for c in range(nchains):
        ops.append(["junk", c, rng.choice([200, 1000, 4000])])
        j = free.pop()
        ops.append(["mk", j, rng.choice(KINDS), "#t", "big"])
        info[j] = "big"
        held.add(j)
        made.append(j)
        ops.append(["unjunk", c])
        if rng.random() < 0.8:
            ops.append(["gc"])
        for _ in range(rng.randrange(1, 3)):
            i = free.pop()
            ops.append(["chain", i, j])
            chain[i] = j
            made.append(i)
            if rng.random() < 0.3:
                ops.append(["gc"])
    snaps = []

    def model():
        alive = {i: (i in held) for i in info}
        for _ in range(len(made) + 1):
            for i in made:
                if i in chain:
                    alive[i] = alive.get(chain[i], False)
        return dict(alive)

    ops.append(["obs", 0])
    snaps.append(model())
    k = 0
    for rnd in range(rng.randrange(1, 3)):
        for i in list(held):
            if rng.random() < 0.4:
                ops.append(["drop", i])
                held.discard(i)
        k += 1
        ops.append(["obs", k])
        snaps.append(model())
    return {"ops": ops, "snaps": snaps, "chain": chain, "info": info, "family": "layout"}


def ops_text(ops):
    return "(" + " ".join("(" + " ".join(str(x) for x in op) + ")" for op in ops) + ")"


def judge(rep, h, res, sched):
    sig0 = {"check": "ephemeron"}
    wit = {"ops": ops_text(h["ops"])[:2500], "schedule": sched}
    if res is None or res.status == "missing":
        rep.inconc("no-output", h["id"])
        return
    if res.status == "timeout":
        rep.inconc("timeout", h["id"])
        return
    if res.status == "crash":
        d = res.detail or {}
        san = d.get("sanitizer")
        rep.violation(dict(sig0, mode="asan" if san else "crash", frames=(san or {}).get("frames", [])[:2] if san else None),
                      dict(wit, detail=d))
        return
    try:
        data = res.data()
    except Exception:
        rep.violation(dict(sig0, mode="unparsable-output"), dict(wit, text=res.text[:500]))
        return
    for d in data:
        if isinstance(d, list) and d and d[0] == Sym("err"):
            rep.violation(dict(sig0, mode="error"), dict(wit, obs=str(d)))
            return
        k = d[0]
        model = h["snaps"][k]
        for row in d[1:]:
            i, broken, haskey, val, keychanged = row
            how = "chained" if i in h["chain"] else ("held" if model.get(i) else "dropped")
            vk = h["info"].get(i, "plain")
            rep.count("ephemeron_observations")
            rep.signatures.add(("eph", how, vk, "alive" if model.get(i) else "dead"))
            if model.get(i):
                if broken or not haskey:
                    rep.violation(dict(sig0, mode="broken-while-key-reachable", key=how, value=vk), dict(wit, eph=i, obs=k, row=row))
                    return
                if keychanged:
                    rep.violation(dict(sig0, mode="key-identity-changed", key=how), dict(wit, eph=i, row=row))
                    return
                if val != 2:
                    rep.violation(dict(sig0, mode="value-lost-while-key-alive", key=how, value=vk), dict(wit, eph=i, row=row))
                    return
            else:
                if not broken:
                    rep.violation(dict(sig0, mode="not-broken-after-3-rounds", key=how, value=vk), dict(wit, eph=i, obs=k, row=row))
                    return
                if haskey or val != 0:
                    rep.violation(dict(sig0, mode="broken-but-key-or-value-kept", key=how), dict(wit, eph=i, row=row))
                    return


FD_PROG = r"""
(import (scheme base) (scheme write) (scheme file) (scheme read) (scheme process-context) (scheme load)
        (only (chibi ast) gc))
(load "@VMARK@")
(define dir "@DIR@")
(define (path i) (string-append dir "/f" (number->string (modulo i 7)) ".txt"))
(define (scrub n) (let lp ((i 0) (acc 0)) (if (< i n) (lp (+ i 1) (+ acc (string-length (number->string (* i i))))) acc)))
(define base (begin (gc) (open-fd-count)))
(define kept '())
(define (open-and-drop i) (let ((p (open-input-file (path i)))) (read-char p) 0))
(define (open-and-keep i) (let ((p (open-input-file (path i)))) (read-char p) (set! kept (cons (cons i p) kept)) 0))
(define (open-out-and-drop i)
  (let ((p (open-output-file (string-append dir "/out" (number->string (modulo i 5)) ".txt")))) (write-string "x" p) 0))
(define (open-close-twice i) (let ((p (open-input-file (path i)))) (close-input-port p) (close-input-port p) (close-port p) 0))
(define peak 0)
(do ((i 0 (+ i 1))) ((= i @N@))
  (+ 1 (case (modulo i 11)
         ((3) (if (< (length kept) 12) (open-and-keep i) (open-and-drop i)))
         ((5) (open-out-and-drop i))
         ((7) (open-close-twice i))
         (else (open-and-drop i))))
  (let ((c (open-fd-count))) (if (and c (> c peak)) (set! peak c))))
(define kept-ok
  (let lp ((k kept) (ok #t))
    (if (null? k) ok
        (let* ((i (caar k)) (p (cdar k)) (c (read-char p)))
          (lp (cdr k) (and ok (char? c) (char=? c (string-ref "0123456789" (modulo i 7)))))))))
(for-each (lambda (k) (close-input-port (cdr k))) kept)
(set! kept '())
(scrub 100) (gc) (scrub 100) (gc) (scrub 100) (gc)
(write (list 'base base 'peak peak 'kept-ok kept-ok 'final (open-fd-count)))
(newline) (flush-output-port) (emergency-exit 0)
"""


def fd_check(rep, b, tier, seed):
    d = R.scratch_dir("c16fd")
    for i in range(7):
        with open(os.path.join(d, "f%d.txt" % i), "w") as fh:
            fh.write("X%d\n" % i)
    n = 3000 if tier == "quick" else 20000
    prog = (FD_PROG.replace("@VMARK@", b.native("vmark")).replace("@DIR@", d).replace("@N@", str(n)))
    pf = os.path.join(d, "fd.scm")
    with open(pf, "w") as fh:
        fh.write(prog)
    # the kept ports read the 2nd char: file i contains "X<i>\n"; first char consumed at open time
    trace = os.path.join(d, "trace.txt")
    have_strace = shutil.which("strace") is not None
    cmd = b.cmd(pf)
    if have_strace:
        cmd = ["strace", "-f", "-e", "trace=openat,open,close,dup,dup2,dup3,pipe,pipe2,socket", "-o", trace] + cmd

    def limit():
        resource.setrlimit(resource.RLIMIT_NOFILE, (64, 64))

    import subprocess
    env = b.env({"CHIBI_VERIF_HEAPCHECK": "1"})
    try:
        p = subprocess.run(cmd, cwd=b.src, env=env, capture_output=True, text=True, timeout=300, preexec_fn=limit)
    except subprocess.TimeoutExpired:
        rep.inconc("timeout", "fd program")
        shutil.rmtree(d, ignore_errors=True)
        return
    wit = {"stdout": p.stdout[-500:], "stderr": p.stderr[-800:], "n": n, "program": "vf/props/c16.py:FD_PROG"}
    rep.case(("fd", "drop-loop", n))
    sig = {"check": "descriptors"}
    if p.returncode != 0:
        mode = "EMFILE" if ("Too many open files" in p.stderr or "EMFILE" in p.stderr or "too many" in p.stderr.lower()) else "program-failed"
        rep.violation(dict(sig, mode=mode), wit)
    else:
        m = re.search(r"\(base (\d+) peak (\d+) kept-ok (#t|#f) final (\d+)\)", p.stdout)
        if not m:
            rep.violation(dict(sig, mode="unparsable-output"), wit)
        else:
            base, peak, ok, final = int(m.group(1)), int(m.group(2)), m.group(3), int(m.group(4))
            rep.extra.update(fd_base=base, fd_peak=peak, fd_final=final, fd_iterations=n)
            if ok != "#t":
                rep.violation(dict(sig, mode="kept-port-lost-its-descriptor"), wit)
            if final > base:
                rep.violation(dict(sig, mode="descriptors-not-released", excess=min(final - base, 3)), wit)
    if have_strace and os.path.exists(trace):
        ebadf = 0
        closes = opens = 0
        emfile = 0
        for line in open(trace, errors="replace"):
            if " close(" in line or line.startswith("close("):
                closes += 1
                if "EBADF" in line:
                    ebadf += 1
            elif "openat(" in line or " open(" in line:
                opens += 1
                if "EMFILE" in line:
                    emfile += 1
        rep.extra.update(fd_events_checked=opens + closes, fd_close_calls=closes, fd_open_calls=opens, fd_emfile_retries=emfile)
        rep.case(("fd", "strace", "events"))
        if ebadf:
            rep.violation(dict(sig, mode="double-close-EBADF"), dict(wit, ebadf=ebadf))
    else:
        rep.inconc("strace-unavailable", None)
    shutil.rmtree(d, ignore_errors=True)


def check(rep, tier, seed):
    rng = random.Random(seed * 2750159 + 16)
    variants = ["hooks"] if tier == "quick" else ["hooks", "asan-rz"]
    builds = {v: B.ensure(v) for v in variants}
    rep.builds.update(variants)
    nh = 192 if tier == "quick" else 12000
    hists = []
    for i in range(nh):
        h = gen_history(rng) if i % 3 else gen_layout_history(rng)
        h["id"] = "e%d" % i
        hists.append(h)
    per = 12
    batches = [hists[i:i + per] for i in range(0, len(hists), per)]
    scheds = [None, "every:211:7", "rand:%d:5" % seed, "sites:1:4", None, "every:503:1"]

    def run_batch(ib):
        i, hs = ib
        sched = scheds[i % len(scheds)]
        variant = variants[i % len(variants)]
        env = {"CHIBI_VERIF_HEAPCHECK": 1 if not sched else 2}
        if sched:
            env["CHIBI_VERIF_GC"] = sched
        cs = [(h["id"], "(%%case* %s (let ((r (%%try (lambda () (run-eph '%s))))) (if (and (pair? r) (eq? (car r) 'err)) (%%obs r))))"
               % (h["id"], ops_text(h["ops"]))) for h in hs]
        res, procs = C.run_file(builds[variant], IMPORTS.replace("(scheme base)", "(scheme base) (scheme cxr)"), HEADER, cs,
                                env_extra=env, timeout=300)
        return hs, res, procs, sched, variant

    gcs = 0
    for hs, res, procs, sched, variant in R.pmap(run_batch, list(enumerate(batches))):
        for h in hs:
            rep.case(("history", h.get("family", "mixed"), (sched or "none").split(":")[0], variant))
            judge(rep, h, res.get(h["id"]), sched)
        for p in procs:
            for l in p.log_lines("HEAPCHECK-FAIL"):
                rep.violation({"check": "heap-invariant", "mode": l.split()[1].replace("kind=", ""),
                               "slot": (re.search(r"slot=(\S+)", l) or [None, None])[1],
                               "owner_type": (re.search(r"owner_type=(\S+)", l) or [None, None])[1]},
                              {"line": l, "schedule": sched})
            for dct in p.log_kv("HEAPCHECK-SUMMARY"):
                gcs += dct.get("runs", 0)
    rep.extra["collections_checked"] = gcs
    rep.sample({"history": ops_text(hists[0]["ops"])[:500], "model_alive_at_first_obs": {str(k): v for k, v in list(hists[0]["snaps"][0].items())[:10]}})
    fd_check(rep, builds["hooks"], tier, seed)
    rep.rule = ("ephemeron histories (<= 48 ephemerons; key kinds string/pair/record/bignum/vector; keys held in a global vector or "
                "dropped; values plain / containing their own key / chained: the key of one ephemeron is the value object of "
                "another) observed after 3 scrub+gc rounds, under no injection and under forced-collection schedules; distinct = "
                "(how the key is held, value kind, model verdict) + (schedule kind, build); plus one descriptor-lifecycle run "
                "under strace with RLIMIT_NOFILE=64")
    rep.assumptions = ["'broken after the next full collection' is checked as 'broken within 3 scrub+collect rounds' (stale VM "
                       "temporaries may keep a key one round longer)",
                       "keys are created in a non-tail helper so that no live frame holds them"]
