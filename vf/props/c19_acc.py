"""C19: numeric accessors of (scheme bytevector), (chibi bytevector) and (srfi 160 ...).  Oracle: Python struct /
int.to_bytes, and a direct reimplementation of the IEEE binary16 / E5M2 layouts for the mini-floats."""
import math
import struct
from fractions import Fraction

from ..sexpr import Sym, Str
from .c19_common import Case, bvlit, is_err, err_msg, as_bytes, as_float, show, dbl_expr

INT_TYPES = [("u16", 2, False), ("s16", 2, True), ("u32", 4, False), ("s32", 4, True), ("u64", 8, False), ("s64", 8, True)]
FMT = {("u16"): "H", "s16": "h", "u32": "I", "s32": "i", "u64": "Q", "s64": "q", "single": "f", "double": "d"}
SB = "scheme-bytevector"


def int_values(rng, w, signed):
    bits = 8 * w
    if signed:
        lo, hi = -(1 << (bits - 1)), (1 << (bits - 1)) - 1
        vals = [0, 1, -1, lo, hi, lo + 1, hi - 1, 0x0102030405060708 & hi, -2 - (0x0102 & hi)]
    else:
        lo, hi = 0, (1 << bits) - 1
        vals = [0, 1, hi, hi - 1, 1 << (bits - 1), (1 << (bits - 1)) - 1, 0x0102030405060708 & hi, 0xF1F2F3F4F5F6F7F8 & hi]
    vals += [rng.randrange(lo, hi + 1) for _ in range(3)]
    return vals


def fl_obs_eq(o, x, single=False):
    """observation of a flonum == python float x (bitwise up to NaN payload)"""
    f = as_float(o)
    if f is None:
        return False
    if x != x:
        return f == "nan"
    if x == float("inf"):
        return f == "inf"
    if x == float("-inf"):
        return f == "-inf"
    if x == 0:
        return f == ("negzero" if math.copysign(1, x) < 0 else Fraction(0))
    return isinstance(f, Fraction) and f == Fraction(x)


def to_single(x):
    try:
        return struct.unpack("<f", struct.pack("<f", x))[0]
    except OverflowError:
        return math.copysign(float("inf"), x)


def mkcases(rng, quick=True):
    cases = []
    # ------------------------------------------------------------------ (scheme bytevector) integers, in range
    for name, w, signed in INT_TYPES:
        for endian in ("big", "little", "native"):
            L = rng.choice([w, w + 1, 9, 16, 17, 23])
            data = bytes(rng.getrandbits(8) for _ in range(L))
            if rng.random() < 0.3:
                data = bytes(rng.choice([0, 0xFF, 0x80, 0x7F]) for _ in range(L))
            offs = list(range(0, L - w + 1))
            pyend = "<" if endian in ("little", "native") else ">"
            op = "bytevector-%s-%sref" % (name, "native-" if endian == "native" else "")
            args = "" if endian == "native" else " '%s" % endian
            form = "(let ((bv %s)) (map (lambda (k) (%%t (%s bv k%s))) '(%s)))" % (bvlit(data), op, args, " ".join(map(str, offs)))
            exp = [struct.unpack_from(pyend + FMT[name], data, k)[0] for k in offs]
            cases.append(Case(form, (SB, name + "-ref", endian, "in-range"), _judge_list(form, exp, SB, name + "-ref", endian)))
            # set: every offset, a few boundary values
            for v in int_values(rng, w, signed):
                op = "bytevector-%s-%sset!" % (name, "native-" if endian == "native" else "")
                form = ("(let ((src %s)) (map (lambda (k) (let ((bv (bytevector-copy src))) (%%t (begin (%s bv k %d%s) (hx bv))))) '(%s)))"
                        % (bvlit(data), op, v, args, " ".join(map(str, offs))))
                exp = []
                for k in offs:
                    b = bytearray(data)
                    struct.pack_into(pyend + FMT[name], b, k, v)
                    exp.append(bytes(b))
                cases.append(Case(form, (SB, name + "-set!", endian, _vclass(v, w, signed)),
                                  _judge_list(form, exp, SB, name + "-set!", endian, as_hex=True)))
    # s8
    data = bytes([0, 1, 127, 128, 255, 200, 77])
    form = "(let ((bv %s)) (map (lambda (k) (%%t (bytevector-s8-ref bv k))) '(0 1 2 3 4 5 6)))" % bvlit(data)
    cases.append(Case(form, (SB, "s8-ref", "-", "in-range"), _judge_list(form, [struct.unpack_from("b", data, k)[0] for k in range(7)], SB, "s8-ref", "-")))
    for v in (0, 1, -1, -128, 127):
        form = "(let ((bv (bytevector 9 9 9))) (%%t (begin (bytevector-s8-set! bv 2 %d) (hx bv))))" % v
        cases.append(Case(form, (SB, "s8-set!", "-", _vclass(v, 1, True)),
                          _judge_list(form, bytes([9, 9]) + struct.pack("b", v), SB, "s8-set!", "-", as_hex=True, single=True)))
    # ------------------------------------------------------------------ IEEE single / double
    specials = [0.0, -0.0, 1.0, -1.5, math.pi, 5e-324, 2.2250738585072014e-308, 1.7976931348623157e308, float("inf"), float("-inf"),
                float("nan"), 1e-40, 1.401298464324817e-45, 3.4028234663852886e38, 1e39, -1e39, 0.1, 65504.0, 1.0000001]
    for prec, w in (("single", 4), ("double", 8)):
        for endian in ("big", "little", "native"):
            pyend = "<" if endian in ("little", "native") else ">"
            args = "" if endian == "native" else " '%s" % endian
            nat = "native-" if endian == "native" else ""
            # ref: bit patterns of the specials at every offset of a padded bytevector
            for k in (0, 1, 3, 5):
                xs = specials + [struct.unpack("<d", struct.pack("<Q", rng.getrandbits(64)))[0] for _ in range(4)]
                exp, forms = [], []
                for x in xs:
                    xx = to_single(x) if prec == "single" else x
                    pat = struct.pack(pyend + FMT[prec], xx)
                    data = bytes(rng.getrandbits(8) for _ in range(k)) + pat + bytes(rng.getrandbits(8) for _ in range(2))
                    forms.append("(%%t (ob (bytevector-ieee-%s-%sref %s %d%s)))" % (prec, nat, bvlit(data), k, args))
                    exp.append(xx)
                form = "(list %s)" % " ".join(forms)
                cases.append(Case(form, (SB, "ieee-%s-ref" % prec, endian, "offset%d" % k),
                                  _judge_floats(form, exp, SB, "ieee-%s-ref" % prec, endian)))
                forms, exp = [], []
                for x in xs:
                    xx = to_single(x) if prec == "single" else x
                    forms.append("(let ((bv (make-bytevector %d 170))) (%%t (begin (bytevector-ieee-%s-%sset! bv %d %s%s) (hx bv))))"
                                 % (k + w + 1, prec, nat, k, dbl_expr(x), args))
                    exp.append((k, struct.pack(pyend + FMT[prec], xx), xx))
                form = "(list %s)" % " ".join(forms)
                cases.append(Case(form, (SB, "ieee-%s-set!" % prec, endian, "offset%d" % k),
                                  _judge_float_sets(form, exp, w, SB, "ieee-%s-set!" % prec, endian)))
    # ------------------------------------------------------------------ generic uint/sint (any size)
    for size in (1, 2, 3, 5, 8, 9, 16):
        for endian in ("big", "little"):
            L = size + rng.choice([0, 1, 4])
            data = bytes(rng.getrandbits(8) for _ in range(L))
            offs = list(range(0, L - size + 1))
            for signed in (False, True):
                op = "bytevector-%s-ref" % ("sint" if signed else "uint")
                form = "(let ((bv %s)) (map (lambda (k) (%%t (%s bv k '%s %d))) '(%s)))" % (bvlit(data), op, endian, size, " ".join(map(str, offs)))
                exp = [int.from_bytes(data[k:k + size], endian, signed=signed) for k in offs]
                cases.append(Case(form, (SB, op, endian, "size%d" % size), _judge_list(form, exp, SB, op[11:], endian)))
                bits = 8 * size
                vals = ([-(1 << (bits - 1)), (1 << (bits - 1)) - 1, -1, 0, -2] if signed else [0, (1 << bits) - 1, 1 << (bits - 1), 0x0102030405060708090A0B0C0D0E0F10 & ((1 << bits) - 1)])
                op = "bytevector-%s-set!" % ("sint" if signed else "uint")
                forms, exp = [], []
                for v in vals:
                    k = rng.choice(offs)
                    forms.append("(let ((bv (bytevector-copy src))) (%%t (begin (%s bv %d %d '%s %d) (hx bv))))" % (op, k, v, endian, size))
                    b = bytearray(data)
                    b[k:k + size] = v.to_bytes(size, endian, signed=signed)
                    exp.append(bytes(b))
                form = "(let ((src %s)) (list %s))" % (bvlit(data), " ".join(forms))
                cases.append(Case(form, (SB, op, endian, "size%d" % size), _judge_list(form, exp, SB, op[11:], endian, as_hex=True)))
            # list conversions
            n = rng.randrange(0, 5)
            data = bytes(rng.getrandbits(8) for _ in range(n * size))
            for signed in (False, True):
                nm = "sint" if signed else "uint"
                exp = [int.from_bytes(data[i * size:(i + 1) * size], endian, signed=signed) for i in range(n)]
                form = ("(let ((bv %s)) (list (%%t (cons 'l (bytevector->%s-list bv '%s %d))) (%%t (hx (%s-list->bytevector '(%s) '%s %d)))))"
                        % (bvlit(data), nm, endian, size, nm, " ".join(map(str, exp)), endian, size))
                cases.append(Case(form, (SB, nm + "-list", endian, "size%d" % size), _judge_lists(form, exp, data, SB, nm + "-list", endian)))
    # ------------------------------------------------------------------ out-of-range offsets must be rejected
    L = 17          # 16 + 17 = 33 bytes of object -> the allocation is padded well past offset 24: a stray access stays in slack
    data = bytes(range(1, L + 1))
    for name, w, signed in INT_TYPES + [("ieee-single", 4, None), ("ieee-double", 8, None), ("s8", 1, True)]:
        for endian in (("big", "native") if name != "s8" else ("-",)):
            nat = "native-" if endian == "native" else ""
            args = "" if endian in ("native", "-") else " 'big"
            val = "1.5" if name.startswith("ieee") else "1"
            for cls, k in (("gap-first", L - w + 1), ("gap-last", L - 1), ("at-length", L), ("past-end", L + 40), ("negative", -1)):
                if w == 1 and cls.startswith("gap"):
                    continue
                for d in ("ref", "set!"):
                    op = "bytevector-%s-%s%s" % (name, nat, d)
                    if d == "ref":
                        form = "(let ((bv %s)) (%%t (ob (%s bv %d%s))))" % (bvlit(data), op, k, args)
                    else:
                        form = "(let ((bv %s)) (%%t (begin (%s bv %d %s%s) (hx bv))))" % (bvlit(data), op, k, val, args)
                    cases.append(Case(form, (SB, name + "-" + d, endian, "oob-" + cls),
                                      _judge_oob(form, SB, "%s-%s%s" % (name, nat, d), cls, d.rstrip("!"), L, w, k),
                                      info={"oob": True, "op": "%s-%s%s" % (name, nat, d), "cls": cls}))
    for op, size in (("bytevector-uint-ref", 4), ("bytevector-sint-ref", 3)):
        for cls, k in (("gap-first", L - size + 1), ("at-length", L), ("negative", -1)):
            form = "(let ((bv %s)) (%%t (ob (%s bv %d 'little %d))))" % (bvlit(data), op, k, size)
            cases.append(Case(form, (SB, op[11:], "little", "oob-" + cls), _judge_oob(form, SB, op[11:], cls, "ref", L, size, k)))
    # ------------------------------------------------------------------ (chibi bytevector)
    CB = "chibi-bytevector"
    for op, w, endian in (("u16-ref-le", 2, "little"), ("u16-ref-be", 2, "big"), ("u32-ref-le", 4, "little"), ("u32-ref-be", 4, "big")):
        data = bytes(rng.getrandbits(8) for _ in range(9))
        offs = list(range(0, 9 - w + 1))
        form = "(let ((bv %s)) (map (lambda (k) (%%t (cb:bytevector-%s bv k))) '(%s)))" % (bvlit(data), op, " ".join(map(str, offs)))
        exp = [int.from_bytes(data[k:k + w], endian) for k in offs]
        cases.append(Case(form, (CB, op, endian, "in-range"), _judge_list(form, exp, CB, op, endian)))
        for cls, k in (("gap-first", 9 - w + 1), ("at-length", 9), ("negative", -1)):
            form = "(let ((bv %s)) (%%t (ob (cb:bytevector-%s bv %d))))" % (bvlit(data), op, k)
            cases.append(Case(form, (CB, op, endian, "oob-" + cls), _judge_oob(form, CB, op, cls, "ref", 9, w, k)))
    ints = [0, 1, 127, 128, 255, 256, 16383, 16384, 65535, 65536, (1 << 32) - 1, 1 << 32, (1 << 62) - 1, 1 << 62, (1 << 64) + 5, 10 ** 30]
    ints += [rng.getrandbits(rng.choice([7, 14, 21, 40, 63, 64, 100])) for _ in range(8)]
    for n in ints:
        ber = _ber(n)
        k = rng.randrange(0, 3)
        form = ("(let ((bv (make-bytevector %d 170))) (list (%%t (begin (cb:bytevector-ber-set! bv %d %d) (hx bv))) (%%t (cb:bytevector-ber-ref %s %d))"
                " (%%t (hx (cb:integer->bytevector %d))) (%%t (cb:bytevector->integer %s)) (%%t (ob (cb:integer->hex-string %d)))))"
                % (len(ber) + k + 1, n, k, bvlit(b"\xaa" * k + ber + b"\x55"), k, n, bvlit(n.to_bytes(max(1, (n.bit_length() + 7) // 8), "big")), n))
        cases.append(Case(form, (CB, "ber+integer", "-", "bits%d" % min(70, n.bit_length())), _judge_cb_int(form, n, k, ber, CB)))
    for _ in range(24):
        ln = rng.choice([0, 1, 2, 3, 8, 33])
        data = bytes(rng.getrandbits(8) for _ in range(ln))
        if rng.random() < 0.4 and ln:
            data = b"\x00" * rng.randrange(1, ln + 1) + data[:ln - 1]
            data = data[:ln]
        form = "(let ((bv %s)) (list (%%t (ob (cb:bytevector->hex-string bv))) (%%t (hx (cb:hex-string->bytevector \"%s\")))))" % (bvlit(data), data.hex())
        cases.append(Case(form, (CB, "hex-string", "-", _hexclass(data)), _judge_hex(form, data, CB)))
    # ------------------------------------------------------------------ (srfi 160 ...)
    S160 = "srfi-160"
    for tag, w, signed in [("u8", 1, False), ("s8", 1, True)] + INT_TYPES:
        vals = int_values(rng, w, signed)
        n = len(vals)
        sets = " ".join("(%svector-set! v %d %d)" % (tag, i, x) for i, x in enumerate(vals))
        # let*: one effect per step (argument evaluation order is unspecified, chibi goes right to left)
        form = ("(let* ((v (make-%svector %d 0)) (a (%%t (begin %s (cons 'l (%svector->list v))))) (b (%%t (cons 'l (map (lambda (i) (%svector-ref v i)) '(%s)))))"
                " (c (%%t (%svector-ref v %d))) (d (%%t (%svector-ref v -1))) (e (%%t (%svector-set! v %d 0)))) (list a b c d e (%svector-length v)))"
                % (tag, n, sets, tag, tag, " ".join(map(str, range(n))), tag, n, tag, tag, n, tag))
        cases.append(Case(form, (S160, tag + "vector", "-", "limits"), _judge_160(form, vals, S160, tag)))
    for tag, conv in (("f32", to_single), ("f64", float)):
        vals = [0.0, -0.0, 1.5, -2.25, math.pi, 1e-40, 5e-324, 1e39, float("inf"), float("-inf"), float("nan"), 3.4028234663852886e38, 0.1]
        sets = " ".join("(%svector-set! v %d %s)" % (tag, i, dbl_expr(x)) for i, x in enumerate(vals))
        form = ("(let* ((v (make-%svector %d 0.)) (a (%%t (begin %s (cons 'l (map ob (%svector->list v))))))) (list a (%%t (%svector-ref v %d)) (%%t (%svector-ref v -1))))"
                % (tag, len(vals), sets, tag, tag, len(vals), tag))
        cases.append(Case(form, (S160, tag + "vector", "-", "specials"), _judge_160f(form, [conv(x) for x in vals], S160, tag)))
    # mini floats: every finite binary16 / E5M2 value must survive set!/ref; other values must land on a neighbour
    form = ("(%t (let ((v (make-f16vector 1 0.)) (bad '()) (n 0))"
            " (define (chk x) (f16vector-set! v 0 x) (set! n (+ n 1)) (if (not (= (f16vector-ref v 0) x)) (set! bad (cons (list (ob x) (ob (f16vector-ref v 0))) bad))))"
            " (do ((e 0 (+ e 1))) ((= e 31)) (do ((m 0 (+ m 1))) ((= m 1024))"
            "   (let ((x (if (= e 0) (* (inexact m) (expt 2. -24)) (* (inexact (+ 1024 m)) (expt 2. (- e 25)))))) (chk x) (chk (- x)))))"
            " (list n (length bad) (if (> (length bad) 6) (list-tail bad (- (length bad) 6)) bad))))")
    cases.append(Case(form, (S160, "f16vector", "-", "all-finite-values"), _judge_mini_all(form, 2 * 31 * 1024, S160, "f16")))
    form = ("(%t (let ((v (make-f8vector 1 0.)) (bad '()) (n 0))"
            " (define (chk x) (f8vector-set! v 0 x) (set! n (+ n 1)) (if (not (= (f8vector-ref v 0) x)) (set! bad (cons (list (ob x) (ob (f8vector-ref v 0))) bad))))"
            " (do ((e 0 (+ e 1))) ((= e 31)) (do ((m 0 (+ m 1))) ((= m 4))"
            "   (let ((x (if (= e 0) (* (inexact m) (expt 2. -16)) (* (inexact (+ 4 m)) (expt 2. (- e 17)))))) (chk x) (chk (- x)))))"
            " (list n (length bad) (if (> (length bad) 6) (list-tail bad (- (length bad) 6)) bad))))")
    cases.append(Case(form, (S160, "f8vector", "-", "all-finite-values"), _judge_mini_all(form, 2 * 31 * 4, S160, "f8")))
    for tag, mant, bias, maxv in (("f16", 10, 15, 65504.0), ("f8", 2, 15, 57344.0)):
        for cls in ("in-range", "tiny", "overflow", "special"):
            xs = []
            for _ in range(24):
                if cls == "in-range":
                    x = rng.uniform(-1, 1) * 2.0 ** rng.randrange(-13, 15)
                elif cls == "tiny":
                    x = rng.uniform(-1, 1) * 2.0 ** rng.randrange(-30, -13)
                elif cls == "overflow":
                    x = rng.choice([-1, 1]) * maxv * rng.choice([1.0001, 1.5, 2, 16, 1e6, 1e30])
                else:
                    x = rng.choice([float("inf"), float("-inf"), float("nan"), 0.0, -0.0, maxv, -maxv])
                xs.append(x)
            form = ("(let ((v (make-%svector 1 0.))) (list %s))"
                    % (tag, " ".join("(%%t (begin (%svector-set! v 0 %s) (ob (%svector-ref v 0))))" % (tag, dbl_expr(x), tag) for x in xs)))
            cases.append(Case(form, (S160, tag + "vector", "-", "rounding-" + cls), _judge_mini_round(form, xs, mant, bias, maxv, S160, tag, cls)))
    return cases


def _ber(n):
    out = [n & 127]
    n >>= 7
    while n:
        out.append(128 | (n & 127))
        n >>= 7
    return bytes(reversed(out))


def _vclass(v, w, signed):
    bits = 8 * w
    if v == 0:
        return "zero"
    if signed and v == -(1 << (bits - 1)):
        return "min"
    if v == ((1 << (bits - 1)) - 1 if signed else (1 << bits) - 1):
        return "max"
    if v < 0:
        return "negative"
    if not signed and v >= 1 << (bits - 1):
        return "top-bit"
    return "positive"


def _hexclass(data):
    if not data:
        return "empty"
    if data[0] == 0:
        return "leading-zero-byte"
    return "plain"


def _viol(codec, op, endian, mode, form, exp, got, **kw):
    sig = {"codec": codec, "op": op, "endianness": endian, "mode": mode}
    sig.update(kw)
    return (sig, {"form": form[:20000], "expected": show(exp, 400), "observed": show(got, 400)})


def _judge_list(form, exp, codec, op, endian, as_hex=False, single=False):
    def judge(o):
        if single:
            o, e = [o], [exp]
        else:
            e = exp
        if not isinstance(o, list) or len(o) != len(e):
            return [_viol(codec, op, endian, "unparsable-observation", form, exp, o)]
        for x, y in zip(o, e):
            if is_err(x):
                return [_viol(codec, op, endian, "error", form, y, x)]
            if as_hex:
                if as_bytes(x) != y:
                    return [_viol(codec, op, endian, "wrong-bytes", form, y.hex(), x)]
            elif isinstance(x, bool) or not isinstance(x, int) or x != y:
                return [_viol(codec, op, endian, "wrong-value", form, y, x)]
        return []
    return judge


def _judge_floats(form, exp, codec, op, endian):
    def judge(o):
        if not isinstance(o, list) or len(o) != len(exp):
            return [_viol(codec, op, endian, "unparsable-observation", form, exp, o)]
        for x, y in zip(o, exp):
            if is_err(x):
                return [_viol(codec, op, endian, "error", form, y, x)]
            if not fl_obs_eq(x, y):
                return [_viol(codec, op, endian, "wrong-value", form, y, x, vclass=_fclass(y))]
        return []
    return judge


def _fclass(x):
    if x != x:
        return "nan"
    if x in (float("inf"), float("-inf")):
        return "inf"
    if x == 0:
        return "zero"
    if abs(x) < 2.2250738585072014e-308:
        return "subnormal-double"
    if abs(x) < 1.1754943508222875e-38:
        return "subnormal-single"
    return "normal"


def _judge_float_sets(form, exp, w, codec, op, endian):
    def judge(o):
        if not isinstance(o, list) or len(o) != len(exp):
            return [_viol(codec, op, endian, "unparsable-observation", form, exp, o)]
        for x, (k, pat, val) in zip(o, exp):
            if is_err(x):
                return [_viol(codec, op, endian, "error", form, pat.hex(), x, vclass=_fclass(val))]
            b = as_bytes(x)
            if b is None or len(b) != k + w + 1:
                return [_viol(codec, op, endian, "unparsable-observation", form, pat.hex(), x)]
            ok_frame = b[:k] == b"\xaa" * k and b[k + w:] == b"\xaa"
            got = b[k:k + w]
            if val != val:
                fmt = {4: "f", 8: "d"}[w]
                e = "<" if endian in ("little", "native") else ">"
                same = struct.unpack(e + fmt, got)[0] != struct.unpack(e + fmt, got)[0]
            else:
                same = got == pat
            if not ok_frame:
                return [_viol(codec, op, endian, "wrote-outside-field", form, pat.hex(), x, vclass=_fclass(val))]
            if not same:
                return [_viol(codec, op, endian, "wrong-bytes", form, pat.hex(), x, vclass=_fclass(val))]
        return []
    return judge


def _judge_lists(form, exp, data, codec, op, endian):
    def judge(o):
        if not isinstance(o, list) or len(o) != 2:
            return [_viol(codec, op, endian, "unparsable-observation", form, exp, o)]
        a, b = o
        if is_err(a) or is_err(b):
            return [_viol(codec, op, endian, "error", form, exp, o)]
        if not (isinstance(a, list) and a[:1] == [Sym("l")] and a[1:] == exp):
            return [_viol(codec, op, endian, "wrong-value", form, exp, a)]
        if as_bytes(b) != data:
            return [_viol(codec, op, endian, "wrong-bytes", form, data.hex(), b)]
        return []
    return judge


def _judge_oob(form, codec, op, cls, d, L, w, k):
    def judge(o):
        if is_err(o):
            return []
        return [({"codec": codec, "op": op, "dir": d, "class": cls, "mode": "oob-accepted"},
                 {"form": form, "expected": "an error: offset %d of a %d-byte bytevector with a %d-byte field" % (k, L, w),
                  "observed": show(o)})]
    return judge


def _judge_cb_int(form, n, k, ber, codec):
    def judge(o):
        if not isinstance(o, list) or len(o) != 5:
            return [_viol(codec, "ber+integer", "-", "unparsable-observation", form, n, o)]
        s, r, ib, bi, hs = o
        exp_bv = b"\xaa" * k + ber + b"\xaa"
        if is_err(s) or as_bytes(s) != exp_bv:
            return [_viol(codec, "ber-set!", "-", "error" if is_err(s) else "wrong-bytes", form, exp_bv.hex(), s)]
        if is_err(r) or r != n or isinstance(r, bool):
            return [_viol(codec, "ber-ref", "-", "error" if is_err(r) else "wrong-value", form, n, r)]
        e = n.to_bytes(max(1, (n.bit_length() + 7) // 8), "big")
        if is_err(ib) or as_bytes(ib) != e:
            return [_viol(codec, "integer->bytevector", "-", "error" if is_err(ib) else "wrong-bytes", form, e.hex(), ib)]
        if is_err(bi) or bi != n:
            return [_viol(codec, "bytevector->integer", "-", "error" if is_err(bi) else "wrong-value", form, n, bi)]
        h = "%x" % n
        h = h if len(h) % 2 == 0 else "0" + h
        from .c19_common import as_text
        t = as_text(hs)
        if t is None or t[0] != h:
            return [_viol(codec, "integer->hex-string", "-", "wrong-value", form, h, hs)]
        return []
    return judge


def _judge_hex(form, data, codec):
    def judge(o):
        from .c19_common import as_text
        if not isinstance(o, list) or len(o) != 2:
            return [_viol(codec, "hex-string", "-", "unparsable-observation", form, data.hex(), o)]
        h, b = o
        t = as_text(h)
        if is_err(h) or t is None or t[0] != data.hex():
            return [_viol(codec, "bytevector->hex-string", "-", "error" if is_err(h) else "wrong-value", form, data.hex(), h, vclass=_hexclass(data))]
        if is_err(b) or as_bytes(b) != data:
            return [_viol(codec, "hex-string->bytevector", "-", "error" if is_err(b) else "wrong-bytes", form, data.hex(), b, vclass=_hexclass(data))]
        return []
    return judge


def _judge_160(form, vals, codec, tag):
    def judge(o):
        if not isinstance(o, list) or len(o) != 6:
            return [_viol(codec, tag + "vector", "-", "unparsable-observation", form, vals, o)]
        a, b, r1, r2, s1, ln = o
        for x in (a, b):
            if is_err(x):
                return [_viol(codec, tag + "vector-set!/ref", "-", "error", form, vals, x)]
            if not (isinstance(x, list) and x[:1] == [Sym("l")] and x[1:] == vals):
                return [_viol(codec, tag + "vector-set!/ref", "-", "wrong-value", form, vals, x)]
        out = []
        for cls, x in (("at-length", r1), ("negative", r2)):
            if not is_err(x):
                out.append(({"codec": codec, "op": tag + "vector-ref", "dir": "ref", "class": cls, "mode": "oob-accepted"}, {"form": form, "observed": show(x)}))
        if not is_err(s1):
            out.append(({"codec": codec, "op": tag + "vector-set!", "dir": "set", "class": "at-length", "mode": "oob-accepted"}, {"form": form, "observed": show(s1)}))
        if ln != len(vals):
            out.append(_viol(codec, tag + "vector-length", "-", "wrong-value", form, len(vals), ln))
        return out
    return judge


def _judge_160f(form, vals, codec, tag):
    def judge(o):
        if not isinstance(o, list) or len(o) != 3:
            return [_viol(codec, tag + "vector", "-", "unparsable-observation", form, vals, o)]
        a, r1, r2 = o
        if is_err(a):
            return [_viol(codec, tag + "vector-set!/ref", "-", "error", form, vals, a)]
        if not (isinstance(a, list) and a[:1] == [Sym("l")] and len(a) - 1 == len(vals)):
            return [_viol(codec, tag + "vector-set!/ref", "-", "unparsable-observation", form, vals, a)]
        for x, y in zip(a[1:], vals):
            if not fl_obs_eq(x, y):
                return [_viol(codec, tag + "vector-set!/ref", "-", "wrong-value", form, y, x, vclass=_fclass(y))]
        out = []
        for cls, x in (("at-length", r1), ("negative", r2)):
            if not is_err(x):
                out.append(({"codec": codec, "op": tag + "vector-ref", "dir": "ref", "class": cls, "mode": "oob-accepted"}, {"form": form, "observed": show(x)}))
        return out
    return judge


def _judge_mini_all(form, n, codec, tag):
    def judge(o):
        if not (isinstance(o, list) and len(o) == 3 and o[0] == n):
            return [_viol(codec, tag + "vector", "-", "error" if is_err(o) else "unparsable-observation", form, n, o)]
        if o[1] != 0:
            return [_viol(codec, tag + "vector-set!/ref", "-", "representable-value-not-preserved", form, "0 of %d values changed" % n,
                          "%d changed, e.g. (value read-back): %s" % (o[1], show(o[2])))]
        return []
    return judge


def mini_neighbours(x, mant, bias, maxv):
    """the two representable values of a 1.5.<mant> mini-float format surrounding |x| (x finite, |x| <= maxv)"""
    a = Fraction(abs(x))
    if a == 0:
        return Fraction(0), Fraction(0)
    emin = 1 - bias
    e = max(math.floor(math.log2(a)) if a > 0 else emin, emin)
    while Fraction(2) ** e > a and e > emin:
        e -= 1
    while Fraction(2) ** (e + 1) <= a:
        e += 1
    ulp = Fraction(2) ** (e - mant)
    lo = (a // ulp) * ulp
    hi = lo if lo == a else lo + ulp
    return lo, hi


def _judge_mini_round(form, xs, mant, bias, maxv, codec, tag, cls):
    def judge(o):
        if not isinstance(o, list) or len(o) != len(xs):
            return [_viol(codec, tag + "vector", "-", "unparsable-observation", form, xs, o)]
        for x, got in zip(xs, o):
            if is_err(got):
                return [_viol(codec, tag + "vector-set!/ref", "-", "error", form, x, got, vclass=cls)]
            f = as_float(got)
            if x != x:
                ok = f == "nan"
            elif x in (float("inf"), float("-inf")):
                ok = f == ("inf" if x > 0 else "-inf")
            elif abs(x) > maxv:
                # beyond the largest finite value: infinity or saturation, with the sign of x
                ok = f == ("inf" if x > 0 else "-inf") or f == Fraction(maxv if x > 0 else -maxv)
            else:
                lo, hi = mini_neighbours(x, mant, bias, maxv)
                if f == "negzero":
                    f = Fraction(0)
                ok = isinstance(f, Fraction) and abs(f) in (lo, hi) and (f == 0 or (f > 0) == (x > 0))
            if not ok:
                return [_viol(codec, tag + "vector-set!/ref", "-", "not-a-neighbouring-value", form, x, got, vclass=cls)]
        return []
    return judge
