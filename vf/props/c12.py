"""C12 -- strings are sequences of Unicode scalar values whatever the byte encoding (DESIGN.md section 3, C12).

Oracle: a Python list of code points per string variable and Python's UTF-8 codec.

Families of cases (each case is ONE top-level form):
  h*  operation histories (<= 40 steps) over three string variables s0 s1 s2 holding characters of UTF-8
      width 1/2/3/4 (and, rarely, U+0000).  After EVERY step the Scheme side prints
          (k  result  (cps0 len0 utf8-0)  (cps1 len1 utf8-1)  (cps2 len2 utf8-2))
      with cps = (map char->integer (string->list s)), len = (string-length s), utf8 = byte list of
      (string->utf8 s); the expected line is produced by the model, so a divergence is pinned to the step.
      Only the first divergent step of a history is judged (later steps run on a state the model no longer has).
  p*  port cases: strings whose multi-byte characters straddle the 4096-byte port buffer boundary, written with
      write-char / write-string to string ports and to files, read back with read-char / peek-char / read-string /
      read-line (observed run-length encoded).
  w*  the exhaustive scalar-value sweep, performed inside chibi; failures only and a count are printed; a running
      hash over all produced UTF-8 bytes is compared with the one Python computes.
The thorough tier (and a small slice of the quick tier) replays histories on the asan-rz build: an ASan/UBSan report
or crash there is a violation with signature {kind: asan, frame: <first chibi frame>}.
"""
import os
import random
import shutil

from .. import build as B
from .. import cases as C
from .. import run as R
from ..sexpr import parse_all, scm_str

IMPORTS = """(import (scheme base) (scheme write) (scheme char) (scheme file) (scheme process-context)
  (only (chibi) string-cursor-offset string-size)
  (only (chibi io) utf8->string!)
  (only (chibi ast) immutable-string)
  (only (chibi filesystem) open open/read) (only (chibi) open-input-file-descriptor)
  (prefix (chibi string) cs:) (prefix (srfi 130) s130:))"""

HEADER = r"""
(define (ch n) (integer->char n))
(define (cps s) (map char->integer (string->list s)))
(define (bvl bv)
  (let lp ((i (- (bytevector-length bv) 1)) (acc '()))
    (if (< i 0) acc (lp (- i 1) (cons (bytevector-u8-ref bv i) acc)))))
(define (o1 s) (%try (lambda () (list (cps s) (string-length s) (bvl (string->utf8 s))))))
(define (%step k r s0 s1 s2) (write (list k r (o1 s0) (o1 s1) (o1 s2))) (newline) (flush-output-port))
(define (rd x)
  (cond ((eof-object? x) -1) ((char? x) (char->integer x)) ((string? x) (cps x))
        ((pair? x) (cons (rd (car x)) (rd (cdr x)))) ((vector? x) (rd (vector->list x))) (else x)))
(define (ci s c) (cs:string-cursor->index s c))
(define (ic s i) (cs:string-index->cursor s i))
(define (S . ns) (list->string (map integer->char ns)))
(define (rotw c)
  (let ((n (char->integer c)))
    (ch (cond ((< n #x80) #x3bb) ((< n #x800) #x65e5) ((< n #x10000) #x1f600) (else 65)))))
(define (maxc a . r) (let lp ((a a) (r r)) (if (null? r) a (lp (if (char<? a (car r)) (car r) a) (cdr r)))))
(define (iota* n) (let lp ((i (- n 1)) (acc '())) (if (< i 0) acc (lp (- i 1) (cons i acc)))))
(define (rle ls)
  (let lp ((ls ls) (acc '()))
    (cond ((null? ls) (reverse acc))
          ((and (pair? acc) (eqv? (car ls) (car (car acc))))
           (set-cdr! (car acc) (+ 1 (cdr (car acc)))) (lp (cdr ls) acc))
          (else (lp (cdr ls) (cons (cons (car ls) 1) acc))))))
(define (orle s) (%try (lambda () (list (rle (cps s)) (string-length s) (rle (bvl (string->utf8 s)))))))
"""

# ------------------------------------------------------------------------------------------------- model helpers
ALPHA = {1: [0x41, 0x61, 0x7a, 0x5a, 0x20, 0x30, 0x7f, 0x2d, 0x6d],
         2: [0x80, 0xe9, 0x3bb, 0x7ff, 0xc9],
         3: [0x800, 0x65e5, 0xd7ff, 0xe000, 0xffff, 0xfffd],
         4: [0x10000, 0x1f600, 0x10ffff, 0xf0000]}
# characters of the alphabet for which (scheme char) string-upcase/-downcase is the identity or plain ASCII mapping
CASELESS = {0x20, 0x30, 0x7f, 0x2d, 0x80, 0x7ff, 0x800, 0x65e5, 0xd7ff, 0xe000, 0xffff, 0xfffd, 0x10000, 0x1f600,
            0x10ffff, 0xf0000, 0}
MAXLEN = 28


def width(cp):
    return 1 if cp < 0x80 else 2 if cp < 0x800 else 3 if cp < 0x10000 else 4


def enc(cps):
    return list("".join(map(chr, cps)).encode("utf-8"))


def wclass(cps):
    if not cps:
        return "e"
    s = "".join(sorted(set(str(width(c)) for c in cps)))
    return s + ("z" if 0 in cps else "")


def posclass(n, i):
    if n == 1:
        return "only"
    return "first" if i == 0 else "last" if i == n - 1 else "mid"


def rngclass(n, a, b):
    if a == b:
        return "empty"
    if a == 0 and b == n:
        return "full"
    if a == 0:
        return "prefix"
    if b == n:
        return "suffix"
    return "inner"


def wr(v):
    """Text chibi's `write` prints for a value made of ints, booleans and (nested) lists."""
    if v is True:
        return "#t"
    if v is False:
        return "#f"
    if isinstance(v, int):
        return str(v)
    if isinstance(v, str):
        return v                                  # symbol
    return "(" + " ".join(wr(x) for x in v) + ")"


def obs(cps):
    return [list(cps), len(cps), enc(cps)]


def chx(c):
    return "(ch %d)" % c


def slit(cps):
    return scm_str("".join(map(chr, cps)))


FRESH = {"make-string", "construct", "string-copy", "substring", "string-append", "list->string", "vector->string",
         "utf8->string", "utf8->string!", "immutable-string"}


class Var:
    __slots__ = ("cps", "store")

    def __init__(self, cps, store="fresh"):
        self.cps = list(cps)
        self.store = store        # fresh | literal | immutable | cow | offset | shared


class Step:
    __slots__ = ("op", "expr", "r", "sig", "vs")

    def __init__(self, op, expr, r, sig, vs=None):
        self.op = op
        self.expr = expr
        self.r = r
        self.sig = sig
        self.vs = vs or {}


PREDS = [
    ("(lambda (c) (< (char->integer c) 128))", lambda c: c < 128, "ascii"),
    ("(lambda (c) (> (char->integer c) #xffff))", lambda c: c > 0xffff, "astral"),
    ("(lambda (c) (<= #x80 (char->integer c) #x7ff))", lambda c: 0x80 <= c <= 0x7ff, "w2"),
    ("(lambda (c) (<= #x800 (char->integer c) #xffff))", lambda c: 0x800 <= c <= 0xffff, "w3"),
]


class Gen:
    def __init__(self, rng, force_bang=False):
        self.rng = rng
        self.force_bang = force_bang      # development aid: every history may use utf8->string!
        self.v = []
        self.drew_nul = False
        self.ck = None            # kind of the last start/end arguments given to a SRFI 130 procedure
        self.bang = False         # may this history use (chibi io) utf8->string! ?
        self.lit80 = False        # may it contain a literal with the escape \\x80; (known reader defect) ?

    # ---- random material
    def rchar(self, w=None):
        r = self.rng
        if w is None and r.random() < 0.02:
            self.drew_nul = True
            return 0
        w = w or r.choice((1, 2, 3, 4))
        return r.choice(ALPHA[w])

    def rcps(self, maxlen=8):
        r = self.rng
        n = r.choice((0, 1, 1, 2, 3, 4, 5, 6, maxlen))
        if r.random() < 0.15:
            w = r.choice((1, 2, 3, 4))
            return [self.rchar(w) for _ in range(n)]
        return [self.rchar() for _ in range(n)]

    def build(self, cps, lit80=False):
        """(scheme expression, store) constructing a string with the given contents by a random route.
        Literals containing U+0080 are produced only where the caller can name them in the signature (lit80)."""
        r = self.rng
        k = r.random()
        if 0 in cps:
            self.drew_nul = True
        if 0x80 in cps and not lit80 and (0.5 <= k < 0.6 or k >= 0.9):
            k = r.random() * 0.5
        if k < 0.3:
            return "(S %s)" % " ".join(map(str, cps)), "fresh"
        if k < 0.5:
            return "(string %s)" % " ".join(chx(c) for c in cps), "fresh"
        if k < 0.6:
            return "(string-copy %s)" % slit(cps), "fresh"
        if k < 0.7:
            return "(utf8->string (bytevector %s))" % " ".join(map(str, enc(cps))), "fresh"
        if k < 0.8 and cps:
            f = self.rchar()
            order = list(enumerate(cps))
            if r.random() < 0.5:
                order.reverse()
            sets = " ".join("(string-set! s %d %s)" % (i, chx(c)) for i, c in order)
            return "(let ((s (make-string %d %s))) %s s)" % (len(cps), chx(f), sets), "fresh"
        if k < 0.9:
            m = r.randrange(0, len(cps) + 1)
            return "(string-append (S %s) (S %s))" % (" ".join(map(str, cps[:m])), " ".join(map(str, cps[m:]))), "fresh"
        return slit(cps), "literal"

    def pick(self, pred=None):
        idx = [i for i in range(3) if pred is None or pred(self.v[i])]
        return self.rng.choice(idx) if idx else None

    def pick_mut(self, nonempty=False):
        return self.pick(lambda v: v.store not in ("literal", "immutable") and (v.cps or not nonempty))

    def index(self, n):
        r = self.rng
        return r.choice((0, n - 1, r.randrange(n), r.randrange(n)))

    def range(self, n):
        r = self.rng
        k = r.random()
        if k < 0.2:
            return 0, n
        if k < 0.35:
            return 0, r.randrange(0, n + 1)
        if k < 0.5:
            return r.randrange(0, n + 1), n
        if k < 0.58:
            a = r.randrange(0, n + 1)
            return a, a
        a = r.randrange(0, n + 1)
        return a, r.randrange(a, n + 1)

    def rargs(self, n, a, b):
        """optional [start [end]] argument text; omitted where the defaults mean the same (sometimes)."""
        r = self.rng
        if b == n and r.random() < 0.6:
            if a == 0 and r.random() < 0.6:
                return ""
            return " %d" % a
        return " %d %d" % (a, b)

    def cargs(self, name, n, a, b):
        """start/end for SRFI 130 procedures: indexes or cursors."""
        r = self.rng
        if b == n and a == 0 and r.random() < 0.4:
            self.ck = "default"
            return ""
        if r.random() < 0.5:
            self.ck = "cursor"
            return " (ic %s %d) (ic %s %d)" % (name, a, name, b)
        self.ck = "index"
        return " %d %d" % (a, b)

    # ---- assignments: (set! T <expr>)
    def assign(self, t, op, e, val, sig, store="fresh", vs=None):
        if len(val) > MAXLEN:
            return None
        self.v[t].cps = list(val)
        self.v[t].store = store
        if op not in FRESH:
            # only these are specified to return newly allocated strings; anything else may legitimately return (or
            # share storage with) an argument, so it is copied before it can be mutated
            e = "(string-copy %s)" % e
        return Step(op, "(begin (set! s%d %s) 0)" % (t, e), 0, (op,) + tuple(sig), vs)

    def op_make_string(self):
        t = self.rng.randrange(3)
        n = self.rng.choice((0, 1, 2, 3, 7))
        c = self.rchar()
        return self.assign(t, "make-string", "(make-string %d %s)" % (n, chx(c)), [c] * n, (width(c), min(n, 2)))

    def op_string(self):
        t = self.rng.randrange(3)
        cps = self.rcps()
        e, st = self.build(cps, lit80=self.lit80)
        route = e.split(" ")[0].strip("(") if e[0] == "(" else "literal"
        if route == "string-copy":
            route = "literal-copy"
        u80 = 0x80 in cps and route in ("literal", "literal-copy")
        return self.assign(t, "construct", e, cps, (route, wclass(cps), u80), store=st,
                           vs={"route": route, "literal_u0080": u80})

    def op_copy(self):
        t, a = self.rng.randrange(3), self.rng.randrange(3)
        src = self.v[a].cps
        n = len(src)
        i, j = self.range(n)
        op = self.rng.choice(("string-copy", "substring", "list->string", "vector->string", "utf8->string",
                              "substring-cursor", "s130:substring/cursors", "s130:string-copy/cursors"))
        A = "s%d" % a
        if op == "string-copy":
            e = "(string-copy %s%s)" % (A, self.rargs(n, i, j))
        elif op == "substring":
            e = "(substring %s %d %d)" % (A, i, j)
        elif op == "list->string":
            e = "(list->string (string->list %s%s))" % (A, self.rargs(n, i, j))
        elif op == "vector->string":
            if self.rng.random() < 0.5:
                e = "(vector->string (string->vector %s%s))" % (A, self.rargs(n, i, j))
            else:
                e = "(vector->string (string->vector %s)%s)" % (A, self.rargs(n, i, j))
        elif op == "utf8->string":
            if self.rng.random() < 0.5:
                e = "(utf8->string (string->utf8 %s%s))" % (A, self.rargs(n, i, j))
            else:
                bi, bj = len(enc(src[:i])), len(enc(src[:j]))
                e = "(utf8->string (string->utf8 %s)%s)" % (A, self.rargs(len(enc(src)), bi, bj))
        elif op == "substring-cursor":
            if j == n and self.rng.random() < 0.5:
                e = "(cs:substring-cursor %s (ic %s %d))" % (A, A, i)
            else:
                e = "(cs:substring-cursor %s (ic %s %d) (ic %s %d))" % (A, A, i, A, j)
        elif op == "s130:substring/cursors":
            if self.rng.random() < 0.5:
                e = "(s130:substring/cursors %s (ic %s %d) (ic %s %d))" % (A, A, i, A, j)
            else:
                e = "(s130:substring/cursors %s %d %d)" % (A, i, j)
        else:
            e = "(s130:string-copy/cursors %s%s)" % (A, self.cargs(A, n, i, j))
        return self.assign(t, op, e, src[i:j], (wclass(src), rngclass(n, i, j)))

    def op_append(self):
        t = self.rng.randrange(3)
        k = self.rng.choice((0, 1, 2, 2, 3))
        parts, val = [], []
        for _ in range(k):
            if self.rng.random() < 0.7:
                a = self.rng.randrange(3)
                parts.append("s%d" % a)
                val += self.v[a].cps
            else:
                c = self.rcps(4)
                parts.append(self.build(c)[0])
                val += c
        op = self.rng.choice(("string-append", "s130:string-concatenate", "cs:string-join", "s130:string-concatenate-reverse"))
        if op == "string-append":
            e = "(string-append %s)" % " ".join(parts)
        elif op == "s130:string-concatenate":
            e = "(s130:string-concatenate (list %s))" % " ".join(parts)
        elif op == "s130:string-concatenate-reverse":
            e = "(s130:string-concatenate-reverse (list %s))" % " ".join(reversed(parts))
        else:
            e = "(cs:string-join (list %s))" % " ".join(parts)
        return self.assign(t, op, e, val, (wclass(val), k))

    def op_join(self):
        t = self.rng.randrange(3)
        k = self.rng.choice((1, 2, 3))
        d = self.rcps(2)
        parts, vals = [], []
        for _ in range(k):
            a = self.rng.randrange(3)
            parts.append("s%d" % a)
            vals.append(self.v[a].cps)
        val = []
        for i, p in enumerate(vals):
            if i:
                val += d
            val += p
        op = self.rng.choice(("cs:string-join", "s130:string-join"))
        e = "(%s (list %s) %s)" % (op, " ".join(parts), self.build(d)[0])
        return self.assign(t, op + "/delim", e, val, (wclass(val), wclass(d), k))

    def op_map(self):
        t, a = self.rng.randrange(3), self.rng.randrange(3)
        src = self.v[a].cps
        k = self.rng.random()
        if k < 0.4:
            rot = {1: 0x3bb, 2: 0x65e5, 3: 0x1f600, 4: 65}
            return self.assign(t, "string-map/rotw", "(string-map rotw s%d)" % a, [rot[width(c)] for c in src],
                               (wclass(src),))
        if k < 0.55:
            return self.assign(t, "cs:string-map/rotw", "(cs:string-map rotw s%d)" % a,
                               [{1: 0x3bb, 2: 0x65e5, 3: 0x1f600, 4: 65}[width(c)] for c in src], (wclass(src),))
        others = [self.rng.randrange(3) for _ in range(self.rng.choice((1, 1, 2)))]
        srcs = [src] + [self.v[b].cps for b in others]
        m = min(len(x) for x in srcs)
        val = [max(x[i] for x in srcs) for i in range(m)]
        e = "(string-map maxc s%d %s)" % (a, " ".join("s%d" % b for b in others))
        uneq = len(set(len(x) for x in srcs)) > 1
        return self.assign(t, "string-map/n", e, val, (wclass(val), len(srcs), "unequal" if uneq else "equal"))

    def op_case(self):
        t, a = self.rng.randrange(3), self.rng.randrange(3)
        src = self.v[a].cps
        op = self.rng.choice(("string-upcase", "string-downcase", "string-foldcase", "cs:string-upcase-ascii",
                              "cs:string-downcase-ascii"))
        up = op in ("string-upcase", "cs:string-upcase-ascii")
        if op.startswith("cs:"):
            val = [c - 32 if (up and 97 <= c <= 122) else c + 32 if (not up and 65 <= c <= 90) else c for c in src]
        else:
            if any(not (c in CASELESS or 65 <= c <= 90 or 97 <= c <= 122) for c in src):
                return None
            val = [c - 32 if (up and 97 <= c <= 122) else c + 32 if (not up and 65 <= c <= 90) else c for c in src]
        return self.assign(t, op, "(%s s%d)" % (op, a), val, (wclass(src),))

    def op_outport(self):
        """build a string through an output string port: write-char / write-string with ranges"""
        t = self.rng.randrange(3)
        k = self.rng.randrange(1, 6)
        ws, val = [], []
        kinds = set()
        for _ in range(k):
            q = self.rng.random()
            if q < 0.4:
                c = self.rchar()
                ws.append("(write-char %s p)" % chx(c))
                val.append(c)
                kinds.add("c%d" % width(c))
            elif q < 0.8:
                a = self.rng.randrange(3)
                src = self.v[a].cps
                i, j = self.range(len(src))
                if i == 0 and j == len(src) and self.rng.random() < 0.7:
                    ws.append("(write-string s%d p)" % a)
                else:
                    ws.append("(write-string s%d p%s)" % (a, self.rargs(len(src), i, j) or " 0"))
                val += src[i:j]
                kinds.add("s" + rngclass(len(src), i, j))
            else:
                a = self.rng.randrange(3)
                ws.append("(display s%d p)" % a)
                val += self.v[a].cps
                kinds.add("d")
        if self.rng.random() < 0.3:
            e = "(cs:call-with-output-string (lambda (p) %s))" % " ".join(ws)
        else:
            e = "(let ((p (open-output-string))) %s (get-output-string p))" % " ".join(ws)
        return self.assign(t, "output-string-port", e, val, (wclass(val), tuple(sorted(kinds))[:3]))

    def op_s130_build(self):
        r = self.rng
        t, a = r.randrange(3), r.randrange(3)
        src = self.v[a].cps
        n = len(src)
        A = "s%d" % a
        op = r.choice(("string-take", "string-drop", "string-take-right", "string-drop-right", "string-pad",
                       "string-pad-right", "string-reverse", "string-replace", "string-filter", "string-remove",
                       "string-replicate", "string-tabulate", "string-unfold", "string-unfold-right",
                       "reverse-list->string", "string-trim", "string-trim-right", "string-trim-both",
                       "cs:string-trim", "cs:string-trim-left", "cs:string-trim-right"))
        sig = (wclass(src),)
        if op in ("string-take", "string-drop", "string-take-right", "string-drop-right"):
            k = r.choice((0, n, r.randrange(n + 1)))
            val = {"string-take": src[:k], "string-drop": src[k:], "string-take-right": src[n - k:],
                   "string-drop-right": src[:n - k]}[op]
            e = "(s130:%s %s %d)" % (op, A, k)
            sig += ("none" if k == 0 else "all" if k == n else "some",)
        elif op in ("string-pad", "string-pad-right"):
            k = r.choice((0, n, max(0, n - 1), n + 2, r.randrange(n + 4)))
            c = self.rchar()
            if op == "string-pad":
                val = src[n - k:] if k <= n else [c] * (k - n) + src
            else:
                val = src[:k] if k <= n else src + [c] * (k - n)
            e = "(s130:%s %s %d %s)" % (op, A, k, chx(c))
            sig += (width(c), "trunc" if k < n else "same" if k == n else "pad")
        elif op == "string-reverse":
            i, j = self.range(n)
            val = src[i:j][::-1]
            e = "(s130:string-reverse %s%s)" % (A, self.cargs(A, n, i, j))
            sig += (rngclass(n, i, j),)
        elif op == "string-replace":
            b = r.randrange(3)
            s2 = self.v[b].cps
            i, j = self.range(n)
            i2, j2 = self.range(len(s2))
            val = src[:i] + s2[i2:j2] + src[j:]
            if r.random() < 0.5:
                e = "(s130:string-replace %s s%d %d %d%s)" % (A, b, i, j, self.cargs("s%d" % b, len(s2), i2, j2))
            else:
                e = "(s130:string-replace %s s%d (ic %s %d) (ic %s %d)%s)" % (A, b, A, i, A, j,
                                                                              self.cargs("s%d" % b, len(s2), i2, j2))
            sig += (wclass(s2), rngclass(n, i, j))
        elif op in ("string-filter", "string-remove"):
            ptxt, pf, pn = r.choice(PREDS)
            i, j = self.range(n)
            keep = (lambda c: pf(c)) if op == "string-filter" else (lambda c: not pf(c))
            val = [c for c in src[i:j] if keep(c)]
            e = "(s130:%s %s %s%s)" % (op, ptxt, A, self.cargs(A, n, i, j))
            sig += (pn, rngclass(n, i, j))
        elif op == "string-replicate":
            if n == 0:
                return None
            f = r.randrange(-n, 2 * n)
            to = f + r.randrange(0, 2 * n + 1)
            val = [src[k % n] for k in range(f, to)]
            e = "(s130:string-replicate %s %d %d)" % (A, f, to)
            sig += ("neg" if f < 0 else "pos", "wrap" if to - f > n else "nowrap")
        elif op == "string-tabulate":
            k = r.randrange(0, 8)
            val = [[0x41, 0x3bb, 0x65e5, 0x1f600][i % 4] for i in range(k)]
            e = "(s130:string-tabulate (lambda (i) (ch (vector-ref #(#x41 #x3bb #x65e5 #x1f600) (modulo i 4)))) %d)" % k
            sig = (min(k, 5),)
        elif op in ("string-unfold", "string-unfold-right"):
            # unfold over the list of characters of A
            e = "(s130:%s null? car cdr (string->list %s))" % (op, A)
            val = src if op == "string-unfold" else src[::-1]
        elif op == "reverse-list->string":
            e = "(s130:reverse-list->string (string->list %s))" % A
            val = src[::-1]
        else:
            ptxt, pf, pn = r.choice(PREDS)
            i, j = 0, n
            while i < j and pf(src[i]):
                i += 1
            if op in ("string-trim", "cs:string-trim-left"):
                j = n
            else:
                while j > i and pf(src[j - 1]):
                    j -= 1
                if op in ("string-trim-right", "cs:string-trim-right"):
                    i = 0
                    j = n
                    while j > 0 and pf(src[j - 1]):
                        j -= 1
            val = src[i:j]
            if op.startswith("cs:"):
                e = "(%s %s %s)" % (op, A, ptxt)
            else:
                e = "(s130:%s %s %s)" % (op, A, ptxt)
            sig += (pn, rngclass(n, i, j))
            return self.assign(t, op if op.startswith("cs:") else "s130:" + op, e, val, sig)
        return self.assign(t, "s130:" + op, e, val, sig)

    def op_symbol(self):
        t, a = self.rng.randrange(3), self.rng.randrange(3)
        src = self.v[a].cps
        return self.assign(t, "symbol-roundtrip", "(string-copy (symbol->string (string->symbol s%d)))" % a, src,
                           (wclass(src),))

    def op_immutable(self):
        t = self.rng.randrange(3)
        a = self.pick(lambda v: v.store not in ("literal", "immutable"))
        if a is None or a == t:
            return None
        src = self.v[a].cps
        st = self.assign(t, "immutable-string", "(immutable-string s%d)" % a, src, (wclass(src),), store="immutable")
        self.v[a].store = "cow" if self.v[a].store == "fresh" else self.v[a].store
        return st

    def op_utf8_bang(self):
        if not self.bang:
            return None
        t = self.rng.randrange(3)
        pre, cps, post = self.rcps(3), self.rcps(6), self.rcps(3)
        if self.rng.random() < 0.3:
            pre = []
        bs = enc(pre + cps + post)
        i, j = len(enc(pre)), len(enc(pre + cps))
        e = "(utf8->string! (bytevector %s) %d %d)" % (" ".join(map(str, bs)), i, j)
        return self.assign(t, "utf8->string!", e, cps, (wclass(cps), "offset" if i else "zero"),
                           store="offset" if i else "shared")

    # ---- in-place mutation
    def op_set(self):
        t = self.pick_mut(nonempty=True)
        if t is None:
            return None
        v = self.v[t]
        n = len(v.cps)
        i = self.index(n)
        wb = width(v.cps[i])
        wa = self.rng.choice((1, 2, 3, 4))
        c = self.rchar(wa) if self.rng.random() < 0.97 else 0
        if c == 0:
            self.drew_nul = True
        wa = width(c)
        pc = posclass(n, i)
        v.cps[i] = c
        vs = {"wb": wb, "wa": wa, "pos": pc, "store": v.store, "width_change": wb != wa}
        if v.store == "cow":
            v.store = "fresh"
        return Step("string-set!", "(begin (string-set! s%d %d %s) 0)" % (t, i, chx(c)), 0,
                    ("string-set!", wb, wa, pc, v.store), vs)

    def op_fill(self):
        t = self.pick_mut()
        if t is None:
            return None
        v = self.v[t]
        n = len(v.cps)
        a, b = self.range(n)
        c = self.rchar()
        ws = sorted(set(width(x) for x in v.cps[a:b]))
        v.cps[a:b] = [c] * (b - a)
        vs = {"wb": "".join(map(str, ws)) or "e", "wa": width(c), "pos": rngclass(n, a, b), "store": v.store,
              "width_change": any(w != width(c) for w in ws)}
        if v.store == "cow" and b > a:
            v.store = "fresh"
        return Step("string-fill!", "(begin (string-fill! s%d %s%s) 0)" % (t, chx(c), self.rargs(n, a, b)), 0,
                    ("string-fill!", vs["wb"], vs["wa"], vs["pos"]), vs)

    def op_copy_bang(self):
        t = self.pick_mut(nonempty=True)
        if t is None:
            return None
        v = self.v[t]
        a = t if self.rng.random() < 0.55 else self.rng.randrange(3)
        src = list(self.v[a].cps)
        n, m = len(v.cps), len(src)
        i, j = self.range(m)
        if j - i > n:
            j = i + self.rng.randrange(0, n + 1)
        at = self.rng.choice((0, n - (j - i), self.rng.randrange(0, n - (j - i) + 1)))
        if a == t:
            rel = "same-left" if at < i else "same-right" if at > i else "same-equal"
            if at != i and not (at < j and i < at + (j - i)):
                rel += "-disjoint"
        else:
            rel = "other"
        ws = "".join(sorted(set(str(width(x)) for x in v.cps[at:at + j - i]))) or "e"
        wsrc = "".join(sorted(set(str(width(x)) for x in src[i:j]))) or "e"
        wchg = any(width(x) != width(y) for x, y in zip(v.cps[at:at + j - i], src[i:j]))
        v.cps[at:at + (j - i)] = src[i:j]
        vs = {"wb": ws, "wa": wsrc, "pos": rel, "store": v.store, "width_change": wchg}
        if v.store == "cow" and j > i:
            v.store = "fresh"
        return Step("string-copy!", "(begin (string-copy! s%d %d s%d%s) 0)" % (t, at, a, self.rargs(m, i, j)), 0,
                    ("string-copy!", ws, wsrc, rel), vs)

    # ---- queries (nothing changes; r is the observation)
    def q(self, op, e, r, sig, vs=None):
        return Step(op, e, r, (op,) + tuple(sig), vs)

    def op_ref(self):
        a = self.rng.randrange(3)
        s = self.v[a].cps
        n = len(s)
        if n and self.rng.random() < 0.5:
            i = self.index(n)
            return self.q("string-ref", "(char->integer (string-ref s%d %d))" % (a, i), s[i],
                          (width(s[i]), posclass(n, i), wclass(s[:i])))
        if self.rng.random() < 0.5:
            return self.q("string-ref/all", "(map (lambda (i) (char->integer (string-ref s%d i))) (iota* %d))" % (a, n),
                          list(s), (wclass(s),))
        return self.q("string-ref/all-desc",
                      "(map (lambda (i) (char->integer (string-ref s%d i))) (reverse (iota* %d)))" % (a, n),
                      list(reversed(s)), (wclass(s),))

    def op_tolist(self):
        a = self.rng.randrange(3)
        s = self.v[a].cps
        n = len(s)
        i, j = self.range(n)
        op = self.rng.choice(("string->list", "string->vector", "string->utf8", "s130:string->list/cursors",
                              "s130:string->vector/cursors", "string-length", "string-size"))
        if op == "string->list":
            return self.q(op, "(rd (string->list s%d%s))" % (a, self.rargs(n, i, j)), s[i:j], (wclass(s), rngclass(n, i, j)))
        if op == "string->vector":
            return self.q(op, "(rd (string->vector s%d%s))" % (a, self.rargs(n, i, j)), s[i:j], (wclass(s), rngclass(n, i, j)))
        if op == "string->utf8":
            return self.q(op, "(bvl (string->utf8 s%d%s))" % (a, self.rargs(n, i, j)), enc(s[i:j]), (wclass(s), rngclass(n, i, j)))
        if op == "string-length":
            return self.q(op, "(string-length (substring s%d %d %d))" % (a, i, j), j - i, (wclass(s), rngclass(n, i, j)))
        if op == "string-size":
            return self.q(op, "(string-size s%d)" % a, len(enc(s)), (wclass(s),))
        return self.q(op, "(rd (%s s%d%s))" % (op, a, self.cargs("s%d" % a, n, i, j)), s[i:j], (wclass(s), rngclass(n, i, j)))

    def op_compare(self):
        r = self.rng
        k = r.choice((2, 2, 2, 3))
        names, vals = [], []
        for _ in range(k):
            if r.random() < 0.75:
                a = r.randrange(3)
                names.append("s%d" % a)
                vals.append(list(self.v[a].cps))
            else:
                # a near-copy of an existing string: equal, prefix, or one character changed
                a = r.randrange(3)
                c = list(self.v[a].cps)
                m = r.random()
                if m < 0.3 and c:
                    c = c[:r.randrange(len(c))]
                elif m < 0.7 and c:
                    c[r.randrange(len(c))] = self.rchar()
                elif m < 0.85:
                    c.append(self.rchar())
                names.append(self.build(c)[0])
                vals.append(c)
        op = r.choice(("string=?", "string<?", "string>?", "string<=?", "string>=?", "equal?"))
        if op == "equal?":
            names, vals = names[:2], vals[:2]
        f = {"string=?": lambda x, y: x == y, "string<?": lambda x, y: x < y, "string>?": lambda x, y: x > y,
             "string<=?": lambda x, y: x <= y, "string>=?": lambda x, y: x >= y, "equal?": lambda x, y: x == y}[op]
        res = all(f(vals[i], vals[i + 1]) for i in range(len(vals) - 1))
        # root-cause class of the operands: position of the first difference relative to a U+0000
        nulpre = False
        for i in range(len(vals) - 1):
            x, y = vals[i], vals[i + 1]
            d = 0
            while d < len(x) and d < len(y) and x[d] == y[d]:
                d += 1
            if 0 in x[:d]:
                nulpre = True
        rel = "eq" if all(vals[i] == vals[i + 1] for i in range(len(vals) - 1)) else "ne"
        ws = "".join(sorted(set(str(width(c)) for v in vals for c in v))) or "e"
        return self.q(op, "(%s %s)" % (op, " ".join(names)), res, (ws, rel, len(vals), nulpre),
                      {"nul_in_common_prefix": nulpre, "arity": len(vals)})

    def op_foreach(self):
        r = self.rng
        k = r.choice((1, 2, 3))
        idx = [r.randrange(3) for _ in range(k)]
        srcs = [self.v[a].cps for a in idx]
        m = min(len(x) for x in srcs)
        res = [[x[i] for x in srcs] for i in range(m)]
        op = r.choice(("string-for-each", "cs:string-for-each", "cs:string-fold"))
        names = " ".join("s%d" % a for a in idx)
        if op == "cs:string-fold":
            e = "(reverse (cs:string-fold (lambda (%s acc) (cons (list %s) acc)) '() %s))" % (
                " ".join("c%d" % i for i in range(k)), " ".join("(char->integer c%d)" % i for i in range(k)), names)
        else:
            e = ("(let ((acc '())) (%s (lambda cs (set! acc (cons (map char->integer cs) acc))) %s) (reverse acc))"
                 % (op, names))
        uneq = len(set(len(x) for x in srcs)) > 1
        return self.q(op, e, res, (k, "unequal" if uneq else "equal", wclass([c for x in srcs for c in x[:m]])))

    def op_inport(self):
        """a reading script over an input string port"""
        r = self.rng
        a = r.randrange(3)
        s = list(self.v[a].cps)
        if r.random() < 0.4:
            # sprinkle newlines so that read-line has something to do: use a fresh string instead
            s = []
            for _ in range(r.randrange(0, 12)):
                s.append(10 if r.random() < 0.25 else self.rchar())
            src = self.build(s)[0]
        else:
            src = "s%d" % a
        pos = 0
        acts, res, kinds = [], [], set()
        for _ in range(r.randrange(1, 9)):
            k = r.random()
            if k < 0.3:
                acts.append("(read-char p)")
                if pos < len(s):
                    res.append(s[pos])
                    kinds.add("rc%d" % width(s[pos]))
                    pos += 1
                else:
                    res.append(-1)
                    kinds.add("rc-eof")
            elif k < 0.55:
                acts.append("(peek-char p)")
                res.append(s[pos] if pos < len(s) else -1)
                kinds.add("pk%d" % width(s[pos]) if pos < len(s) else "pk-eof")
            elif k < 0.8:
                n = r.choice((0, 1, 2, 3, 50))
                acts.append("(read-string %d p)" % n)
                if n == 0:
                    res.append([])
                elif pos >= len(s):
                    res.append(-1)
                else:
                    res.append(s[pos:pos + n])
                    pos = min(len(s), pos + n)
                kinds.add("rs")
            elif k < 0.95:
                acts.append("(read-line p)")
                if pos >= len(s):
                    res.append(-1)
                else:
                    try:
                        e = s.index(10, pos)
                        res.append(s[pos:e])
                        pos = e + 1
                    except ValueError:
                        res.append(s[pos:])
                        pos = len(s)
                kinds.add("rl")
            else:
                acts.append("(char-ready? p)")
                res.append(True)
                kinds.add("cr")
        # argument order of `list` is unspecified: sequence the effects with let*
        binds = " ".join("(x%d %s)" % (i, act) for i, act in enumerate(acts))
        e = "(let* ((p (open-input-string %s)) %s) (rd (list %s)))" % (src, binds,
                                                                     " ".join("x%d" % i for i in range(len(acts))))
        return self.q("input-string-port", e, res, (wclass(s), tuple(sorted(kinds))[:4]))

    def op_cursor(self):
        r = self.rng
        a = r.randrange(3)
        s = self.v[a].cps
        n = len(s)
        A = "s%d" % a
        offs = [len(enc(s[:i])) for i in range(n + 1)]
        op = r.choice(("walk-forward", "walk-backward", "index->cursor->index", "cursor-offset", "cursor-forward",
                       "cursor-back", "cursor-compare", "cursor-ref", "s130:walk", "s130:string-cursor-diff",
                       "s130:string-for-each-cursor", "s130:string-ref/cursor"))
        if op == "walk-forward":
            e = ("(let lp ((c (cs:string-cursor-start %s)) (acc '())) (if (cs:string-cursor>=? c (cs:string-cursor-end %s)) "
                 "(reverse acc) (lp (cs:string-cursor-next %s c) (cons (list (char->integer (cs:string-cursor-ref %s c)) "
                 "(ci %s c) (string-cursor-offset c)) acc))))" % (A, A, A, A, A))
            return self.q(op, e, [[s[i], i, offs[i]] for i in range(n)], (wclass(s),))
        if op == "walk-backward":
            e = ("(let lp ((c (cs:string-cursor-end %s)) (acc '())) (if (cs:string-cursor<=? c (cs:string-cursor-start %s)) "
                 "acc (let ((c (cs:string-cursor-prev %s c))) (lp c (cons (list (char->integer (cs:string-cursor-ref %s c)) "
                 "(ci %s c) (string-cursor-offset c)) acc)))))" % (A, A, A, A, A))
            return self.q(op, e, [[s[i], i, offs[i]] for i in range(n)], (wclass(s),))
        if op == "s130:walk":
            e = ("(let lp ((c (s130:string-cursor-start %s)) (acc '())) (if (s130:string-cursor=? c (s130:string-cursor-end %s)) "
                 "(reverse acc) (lp (s130:string-cursor-next %s c) (cons (list (char->integer (s130:string-ref/cursor %s c)) "
                 "(s130:string-cursor->index %s c)) acc))))" % (A, A, A, A, A))
            return self.q(op, e, [[s[i], i] for i in range(n)], (wclass(s),))
        if op == "index->cursor->index":
            e = "(map (lambda (i) (ci %s (ic %s i))) (iota* %d))" % (A, A, n + 1)
            return self.q(op, e, list(range(n + 1)), (wclass(s),))
        if op == "cursor-offset":
            e = "(map (lambda (i) (string-cursor-offset (ic %s i))) (iota* %d))" % (A, n + 1)
            return self.q(op, e, offs, (wclass(s),))
        if op in ("cursor-forward", "cursor-back"):
            i = r.randrange(n + 1)
            if op == "cursor-forward":
                k = r.randrange(0, n - i + 1)
                e = "(ci %s (cs:string-cursor-forward %s (ic %s %d) %d))" % (A, A, A, i, k)
                return self.q(op, e, i + k, (wclass(s[i:i + k]),))
            k = r.randrange(0, i + 1)
            e = "(ci %s (cs:string-cursor-back %s (ic %s %d) %d))" % (A, A, A, i, k)
            return self.q(op, e, i - k, (wclass(s[i - k:i]),))
        if op == "cursor-compare":
            i, j = r.randrange(n + 1), r.randrange(n + 1)
            e = ("(let ((x (ic %s %d)) (y (ic %s %d))) (list (cs:string-cursor<? x y) (cs:string-cursor<=? x y) "
                 "(cs:string-cursor=? x y) (cs:string-cursor>=? x y) (cs:string-cursor>? x y) (cs:string-cursor? x) "
                 "(s130:string-cursor-diff %s x y)))" % (A, i, A, j, A))
            return self.q(op, e, [i < j, i <= j, i == j, i >= j, i > j, True, j - i],
                          ("lt" if i < j else "eq" if i == j else "gt", wclass(s)))
        if op == "s130:string-cursor-diff":
            i, j = self.range(n)
            e = "(list (s130:string-cursor-diff %s (ic %s %d) (ic %s %d)) (s130:string-cursor-diff %s %d %d))" % (
                A, A, i, A, j, A, i, j)
            return self.q(op, e, [j - i, j - i], (wclass(s[i:j]),))
        if op == "s130:string-for-each-cursor":
            i, j = self.range(n)
            e = ("(let ((acc '())) (s130:string-for-each-cursor (lambda (c) (set! acc (cons (ci %s c) acc))) %s%s) "
                 "(reverse acc))" % (A, A, self.cargs(A, n, i, j)))
            return self.q(op, e, list(range(i, j)), (wclass(s), rngclass(n, i, j)))
        if n == 0:
            return None
        i = self.index(n)
        if op == "cursor-ref":
            e = "(char->integer (cs:string-cursor-ref %s (ic %s %d)))" % (A, A, i)
        else:
            e = "(list (char->integer (s130:string-ref/cursor %s (ic %s %d))) (char->integer (s130:string-ref/cursor %s %d)))" % (
                A, A, i, A, i)
            return self.q(op, e, [s[i], s[i]], (width(s[i]), posclass(n, i)))
        return self.q(op, e, s[i], (width(s[i]), posclass(n, i)))

    def op_search(self):
        r = self.rng
        a = r.randrange(3)
        s = self.v[a].cps
        n = len(s)
        A = "s%d" % a
        op = r.choice(("s130:string-index", "s130:string-index-right", "s130:string-skip", "s130:string-skip-right",
                       "s130:string-contains", "s130:string-contains-right", "s130:string-count",
                       "s130:string-prefix-length", "s130:string-suffix-length", "s130:string-prefix?",
                       "s130:string-suffix?", "s130:string-every", "s130:string-any", "s130:string-null?",
                       "s130:string-split", "s130:string-fold", "s130:string-fold-right",
                       "cs:string-find", "cs:string-skip", "cs:string-find?", "cs:string-count", "cs:string-prefix?",
                       "cs:string-suffix?", "cs:string-contains", "cs:string-split", "cs:string-mismatch",
                       "cs:string-any", "cs:string-every", "cs:string-null?", "cs:string-fold-right"))
        short = op.split(":")[1]
        if short in ("string-index", "string-index-right", "string-skip", "string-skip-right") and op.startswith("s130"):
            if r.random() < 0.5 and n:
                c = r.choice(s)
                ptxt, pf, pn = "(lambda (c) (char=? c %s))" % chx(c), (lambda x, c=c: x == c), "eq%d" % width(c)
            else:
                ptxt, pf, pn = r.choice(PREDS)
            i, j = self.range(n)
            want = (lambda x: pf(x)) if "index" in short else (lambda x: not pf(x))
            if short in ("string-index", "string-skip"):
                res = next((k for k in range(i, j) if want(s[k])), j)
            else:
                res = next((k + 1 for k in range(j - 1, i - 1, -1) if want(s[k])), i)
            e = "(ci %s (%s %s %s%s))" % (A, op, A, ptxt, self.cargs(A, n, i, j))
            return self.q(op, e, res, (pn, rngclass(n, i, j), "hit" if (i <= res < j if "right" not in short else res > i) else "miss"))
        if short in ("string-contains", "string-contains-right") and op.startswith("s130"):
            # needle: a slice of the haystack (hit likely) or another variable
            if r.random() < 0.6 and n:
                i2, j2 = self.range(n)
                nd = s[i2:j2]
            else:
                nd = list(self.v[r.randrange(3)].cps)[:4]
            i, j = self.range(n)
            hits = [k for k in range(i, j - len(nd) + 1) if s[k:k + len(nd)] == nd]
            res = (hits[0] if short == "string-contains" else hits[-1]) if hits else False
            e = "(let ((c (%s %s %s%s))) (and c (ci %s c)))" % (op, A, self.build(nd)[0], self.cargs(A, n, i, j), A)
            return self.q(op, e, res, (wclass(nd), rngclass(n, i, j), "hit" if hits else "miss"))
        if op == "cs:string-contains":
            if r.random() < 0.6 and n:
                i2, j2 = self.range(n)
                nd = s[i2:j2]
            else:
                nd = list(self.v[r.randrange(3)].cps)[:4]
            i = r.randrange(n + 1) if r.random() < 0.5 else 0
            hits = [k for k in range(i, n - len(nd) + 1) if s[k:k + len(nd)] == nd]
            res = hits[0] if hits else False
            st = " (ic %s %d)" % (A, i) if i or r.random() < 0.3 else ""
            e = "(let ((c (cs:string-contains %s %s%s))) (and c (ci %s c)))" % (A, self.build(nd)[0], st, A)
            return self.q(op, e, res, (wclass(nd), "from0" if not i else "from", "hit" if hits else "miss"))
        if short == "string-count":
            ptxt, pf, pn = r.choice(PREDS)
            if op.startswith("s130"):
                i, j = self.range(n)
                e = "(%s %s %s%s)" % (op, A, ptxt, self.cargs(A, n, i, j))
                return self.q(op, e, sum(1 for c in s[i:j] if pf(c)), (pn, rngclass(n, i, j)))
            return self.q(op, "(%s %s %s)" % (op, A, ptxt), sum(1 for c in s if pf(c)), (pn, wclass(s)))
        if short in ("string-prefix-length", "string-suffix-length", "string-prefix?", "string-suffix?", "string-mismatch"):
            # second operand: shares a prefix / suffix with the first
            m = r.random()
            if m < 0.4:
                k = r.randrange(n + 1)
                o = s[:k] + self.rcps(3)
            elif m < 0.8:
                k = r.randrange(n + 1)
                o = self.rcps(3) + s[n - k:]
            else:
                o = list(self.v[r.randrange(3)].cps)
            B_ = self.build(o)[0]
            pl = 0
            while pl < n and pl < len(o) and s[pl] == o[pl]:
                pl += 1
            sl = 0
            while sl < n and sl < len(o) and s[n - 1 - sl] == o[len(o) - 1 - sl]:
                sl += 1
            if short == "string-prefix-length":
                return self.q(op, "(%s %s %s)" % (op, A, B_), pl, (wclass(s[:pl]), "all" if pl == n else "part"))
            if short == "string-suffix-length":
                return self.q(op, "(%s %s %s)" % (op, A, B_), sl, (wclass(s[n - sl:]), "all" if sl == n else "part"))
            if short == "string-prefix?":
                return self.q(op, "(%s %s %s)" % (op, A, B_), pl == n, (wclass(s), pl == n))
            if short == "string-suffix?":
                return self.q(op, "(%s %s %s)" % (op, A, B_), sl == n, (wclass(s), sl == n),
                              {"multibyte": any(c >= 0x80 for c in s + o)})
            e = "(call-with-values (lambda () (cs:string-mismatch %s %s)) (lambda (i j) (list (ci %s i) (let ((o %s)) (ci o j)))))" % (
                A, B_, A, B_)
            return self.q(op, e, [pl, pl], (wclass(s[:pl]),))
        if short in ("string-every", "string-any"):
            ptxt, pf, pn = r.choice(PREDS)
            if op.startswith("s130"):
                i, j = self.range(n)
                sub = s[i:j]
                e = "(and (%s %s %s%s) #t)" % (op, ptxt, A, self.cargs(A, n, i, j))
                sig = (pn, rngclass(n, i, j))
            else:
                sub = s
                e = "(and (%s %s %s) #t)" % (op, ptxt, A)
                sig = (pn, wclass(s))
            res = all(pf(c) for c in sub) if short == "string-every" else any(pf(c) for c in sub)
            return self.q(op, e, res, sig, {"start_gt0": op.startswith("s130") and i > 0})
        if short == "string-null?":
            return self.q(op, "(%s %s)" % (op, A), n == 0, (n == 0,))
        if op == "s130:string-split":
            if n == 0:
                return None
            d = [r.choice(s)] if r.random() < 0.7 else s[:2]
            if r.random() < 0.2:
                d = self.rcps(1) or [65]
            if not d:
                return None
            res, cur, k = [], [], 0
            while k < n:
                if s[k:k + len(d)] == d:
                    res.append(cur)
                    cur = []
                    k += len(d)
                else:
                    cur.append(s[k])
                    k += 1
            res.append(cur)
            return self.q(op, "(rd (s130:string-split %s %s))" % (A, self.build(d)[0]), res, (wclass(d), min(len(res), 4)))
        if op == "cs:string-split":
            if n == 0:
                return None
            c = r.choice(s) if r.random() < 0.8 else self.rchar()
            res, cur = [], []
            for x in s:
                if x == c:
                    res.append(cur)
                    cur = []
                else:
                    cur.append(x)
            res.append(cur)
            return self.q(op, "(rd (cs:string-split %s %s))" % (A, chx(c)), res, (width(c), min(len(res), 4)))
        if short in ("string-fold", "string-fold-right"):
            if op.startswith("s130"):
                i, j = self.range(n)
                e = "(%s (lambda (c acc) (cons (char->integer c) acc)) '() %s%s)" % (op, A, self.cargs(A, n, i, j))
                sub = s[i:j]
                sig = (wclass(sub), rngclass(n, i, j))
            else:
                e = "(%s (lambda (c acc) (cons (char->integer c) acc)) '() %s)" % (op, A)
                sub = s
                sig = (wclass(s),)
            return self.q(op, e, sub[::-1] if short == "string-fold" else list(sub), sig)
        if op in ("cs:string-find", "cs:string-skip", "cs:string-find?"):
            if r.random() < 0.5 and n:
                c = r.choice(s)
                ptxt, pf, pn = chx(c), (lambda x, c=c: x == c), "char%d" % width(c)
            else:
                ptxt, pf, pn = r.choice(PREDS)
            i, j = self.range(n)
            want = (lambda x: not pf(x)) if op == "cs:string-skip" else pf
            res = next((k for k in range(i, j) if want(s[k])), j)
            if i == 0 and j == n and r.random() < 0.5:
                rng_ = ""
            else:
                rng_ = " (ic %s %d) (ic %s %d)" % (A, i, A, j)
            if op == "cs:string-find?":
                return self.q(op, "(cs:string-find? %s %s%s)" % (A, ptxt, rng_), res < j, (pn, rngclass(n, i, j)))
            return self.q(op, "(ci %s (%s %s %s%s))" % (A, op, A, ptxt, rng_), res,
                          (pn, rngclass(n, i, j), "hit" if res < j else "miss"))
        return None

    OPS = [("make_string", 3), ("string", 6), ("copy", 12), ("append", 6), ("join", 2), ("map", 4), ("case", 3),
           ("outport", 5), ("s130_build", 9), ("symbol", 1), ("immutable", 1), ("utf8_bang", 4),
           ("set", 22), ("fill", 6), ("copy_bang", 9),
           ("ref", 5), ("tolist", 6), ("compare", 7), ("foreach", 3), ("inport", 6), ("cursor", 9), ("search", 12)]

    def history(self, hid, maxsteps=40):
        r = self.rng
        self.v = []
        inits = []
        nstr = r.choice((1, 2, 3, 3))
        self.bang = r.random() < 0.06 or self.force_bang
        self.lit80 = r.random() < 0.05
        for i in range(3):
            cps = self.rcps() if i < nstr else []
            e, st = self.build(cps)
            self.v.append(Var(cps, st))
            inits.append("(s%d %s)" % (i, e))
        nsteps = r.choice((5, 10, 20, 30, maxsteps, maxsteps))
        names = [n for n, w in self.OPS for _ in range(w)]
        steps = []
        isolate = self.bang
        lines = [wr([0, 0] + [obs(v.cps) for v in self.v])]
        body = []
        k = 0
        tries = 0
        while k < nsteps and tries < nsteps * 6:
            tries += 1
            stores = [v.store for v in self.v]
            nulv = [0 in v.cps for v in self.v]
            self.ck = None
            self.drew_nul = False
            st = getattr(self, "op_" + r.choice(names))()
            if st is None:
                continue
            refd = [i for i in range(3) if ("s%d" % i) in st.expr]
            if self.drew_nul or any(nulv[i] or 0 in self.v[i].cps for i in refd):
                st.vs["nul"] = True
            if self.ck:
                st.vs["args"] = self.ck
                st.sig = st.sig + (self.ck,)
            if any(stores[i] in ("offset", "shared") and ("s%d" % i) in st.expr for i in range(3)):
                st.vs["shared_store"] = True
                st.sig = st.sig + ("shared-store",)
                nsteps = k + 1        # a string narrower than its byte store: one operation on it, then the history ends
            if st.vs.get("literal_u0080"):
                # known reader defect: the literal is malformed UTF-8 and later operations on it can damage the heap;
                # the history ends here and runs in its own process
                nsteps = k + 1
                isolate = True
            k += 1
            steps.append(st)
            lines.append(wr([k, st.r] + [obs(v.cps) for v in self.v]))
            body.append("(let ((r (%%try (lambda () %s)))) (%%step %d r s0 s1 s2))" % (st.expr, k))
        # the marker is flushed before anything runs: a crash must be blamed on this case, not on the previous one
        form = "(%%case* %s (flush-output-port) (let (%s) (%%step 0 0 s0 s1 s2) %s))" % (hid, " ".join(inits), "\n ".join(body))
        return {"id": hid, "form": form, "steps": steps, "lines": lines, "bang": isolate}


def gen_histories(rng, n, prefix="h", force_bang=False):
    g = Gen(rng, force_bang)
    return [g.history("%s%d" % (prefix, i)) for i in range(n)]


# ------------------------------------------------------------------------------------------------- judging
def _first_frame(san):
    for f in (san or {}).get("frames", []):
        if f.startswith("sexp_") or f.startswith("sexp") or "chibi" in f:
            return f
    fr = (san or {}).get("frames", [])
    return fr[0] if fr else "?"


def same(a, b):
    """structural equality that keeps #f and 0 apart"""
    if isinstance(a, list) or isinstance(b, list):
        return isinstance(a, list) and isinstance(b, list) and len(a) == len(b) and all(same(x, y) for x, y in zip(a, b))
    return type(a) is type(b) and a == b


def judge_history(rep, h, res, variant):
    """Compare the printed lines with the model's; report the first divergent step."""
    steps = h["steps"]
    if res is None or res.status == "missing":
        rep.inconc("no-output", h["id"])
        return 0
    got = [l for l in res.text.split("\n") if l.strip()]
    exp = h["lines"]
    nok = 0
    for k, e in enumerate(exp):
        if k < len(got) and got[k] == e:
            nok += 1
            continue
        # divergence at step k (or output ends here)
        st = steps[k - 1] if k >= 1 else None
        wit = {"history": h["form"], "step": k, "step_expr": st.expr if st else "(initial contents)",
               "expected": e, "observed": got[k] if k < len(got) else None, "build": variant}
        if k >= len(got):
            if res.status == "timeout":
                rep.inconc("timeout", h["id"])
                return nok
            if res.status == "crash":
                san = (res.detail or {}).get("sanitizer")
                wit["detail"] = res.detail
                sig = dict(st.vs) if st else {}
                if san:
                    sig.update({"kind": "asan", "error": san["kind"].split(" on ")[0], "frame": _first_frame(san),
                                "op": st.op if st else "init"})
                else:
                    sig.update({"kind": "crash", "how": (res.detail or {}).get("how"), "op": st.op if st else "init"})
                rep.violation(sig, wit)
                return nok
            rep.violation({"op": st.op if st else "init", "mode": "output-ends"}, wit)
            return nok
        mode = "unparsable-output"
        try:
            o = parse_all(got[k])[0]
            x = parse_all(e)[0]
            if not (isinstance(o, list) and len(o) == 5 and o[0] == k):
                mode = "unparsable-output"
            elif not same(o[1], x[1]):
                mode = "error" if (isinstance(o[1], list) and o[1] and o[1][0] == "err") else "wrong-result"
            else:
                mode = "wrong-contents"
                for i in range(3):
                    if not same(o[2 + i], x[2 + i]):
                        oo, xx = o[2 + i], x[2 + i]
                        if isinstance(oo, list) and oo and oo[0] == "err":
                            mode = "error-observing"
                        elif not same(oo[0], xx[0]):
                            mode = "wrong-contents"
                        elif not same(oo[1], xx[1]):
                            mode = "wrong-length"
                        else:
                            mode = "wrong-utf8"
                        break
        except Exception:
            pass
        sig = {"op": st.op if st else "init", "mode": mode}
        if st:
            sig.update(st.vs)
        rep.violation(sig, wit)
        return nok
    if res.status == "crash":
        # all lines fine but the process died afterwards and was blamed on this case
        san = (res.detail or {}).get("sanitizer")
        wit = {"history": h["form"], "detail": res.detail, "build": variant}
        if san:
            rep.violation({"kind": "asan", "error": san["kind"].split(" on ")[0], "frame": _first_frame(san), "op": "after"}, wit)
        else:
            rep.violation({"kind": "crash", "how": (res.detail or {}).get("how"), "op": "after"}, wit)
    elif res.status == "timeout":
        rep.inconc("timeout", h["id"])
    return nok


# ------------------------------------------------------------------------------------------------- port cases
def rle(xs):
    out = []
    for x in xs:
        if out and out[-1][0] == x:
            out[-1][1] += 1
        else:
            out.append([x, 1])
    return out


def wr_rle(xs):
    return "(" + " ".join("(%d . %d)" % (a, b) for a, b in rle(xs)) + ")"


def orle(cps):
    return "(%s %d %s)" % (wr_rle(cps), len(cps), wr_rle(enc(cps)))


def gen_port_cases(rng, n, tmpdir):
    """Strings with a multi-byte character straddling byte offset 4096 (and 8192) in the port buffer."""
    out = []
    g = Gen(rng)
    # systematic part: every kind x width x split position at the buffer boundary that matters for the kind
    # (file input is refilled 4092 bytes at a time: SEXP_PORT_BUFFER_SIZE - BUF_START; output buffers hold 4096 bytes)
    combos = []
    for kind in ("file-peek", "file-read-char", "file-read-string", "file-read-line", "out-char", "out-string", "out-mixed",
                 "file-write-char", "in-peek", "in-read-char", "in-read-string", "in-read-line",
                 "fd-peek", "fd-read-char", "fd-read-string"):
        for w in (1, 2, 3, 4):
            for split in range(0, w):
                if split == 0 and w > 1 and not kind.startswith("in-"):
                    continue
                if kind.startswith("in-") and split not in (0, 1):
                    continue
                bounds = (4092, 8184) if kind.startswith(("file-", "fd-")) and kind != "file-write-char" else (4096,)
                for bound in bounds:
                    combos.append((kind, w, split, bound))
    rng.shuffle(combos)
    for i in range(n):
        if i < len(combos):
            kind0, w, split, bound = combos[i]
        else:
            kind0 = None
            w = (i % 4) + 1
            split = rng.randrange(0, w) if w > 1 else 0        # bytes of the character before the boundary
            bound = rng.choice((4096, 4092, 8184, 8192, 8191))
        c = rng.choice(ALPHA[w])
        fill = rng.choice((0x61, 0x61, 0x78))
        pre_bytes = bound - split
        lead = []
        if rng.random() < 0.5:
            lead = [rng.choice(ALPHA[rng.choice((2, 3, 4))]) for _ in range(rng.randrange(1, 4))]
        pad = pre_bytes - len(enc(lead))
        tail = [g.rchar() for _ in range(rng.randrange(0, 6))]
        if rng.random() < 0.3:
            tail = tail + [10] + [g.rchar() for _ in range(3)]
        if kind0 in ("file-read-line", "in-read-line") and (w + split + bound) % 2 == 0:
            tail = [0x62, 0, 0x63] + tail          # U+0000 inside a line, deterministically (a C string would end there)
        cps = lead + [fill] * pad + [c] + tail
        kind = kind0 or rng.choice(("out-char", "out-string", "out-mixed", "in-read-char", "in-peek", "in-read-string",
                                    "in-read-line", "file-read-char", "file-peek", "file-read-string", "file-read-line",
                                    "file-write-char"))
        cid = "p%d" % i
        mk = "(string-append (S %s) (make-string %d %s) (S %s))" % (" ".join(map(str, lead)), pad, chx(fill),
                                                                   " ".join(map(str, [c] + tail)))
        path = os.path.join(tmpdir, cid + ".txt")
        exp = None
        if kind == "out-char":
            body = ("(let ((p (open-output-string))) (string-for-each (lambda (c) (write-char c p)) s) "
                    "(write (orle (get-output-string p))))")
            exp = orle(cps)
        elif kind == "out-string":
            body = "(let ((p (open-output-string))) (write-string s p) (write-string s p 1) (write (orle (get-output-string p))))"
            exp = orle(cps + cps[1:])
        elif kind == "out-mixed":
            k = len(lead) + pad - 2
            body = ("(let ((p (open-output-string))) (write-string s p 0 %d) (write-char (string-ref s %d) p) "
                    "(write-char (string-ref s %d) p) (write-char (string-ref s %d) p) (write-string s p %d) "
                    "(write (orle (get-output-string p))))" % (k, k, k + 1, k + 2, k + 3))
            exp = orle(cps)
        elif kind in ("in-read-char", "file-read-char", "fd-read-char"):
            body = ("(let lp ((acc '())) (let ((c (read-char p))) (if (eof-object? c) "
                    "(write (rle (reverse acc))) (lp (cons (char->integer c) acc)))))")
            exp = wr_rle(cps)
        elif kind in ("in-peek", "file-peek", "fd-peek"):
            body = ("(let lp ((acc '())) (let* ((c (peek-char p)) (d (read-char p))) (if (eof-object? c) "
                    "(write (list (eof-object? d) (rle (reverse acc)))) "
                    "(lp (cons (char->integer d) (cons (char->integer c) acc))))))")
            exp = "(#t %s)" % wr_rle([x for c_ in cps for x in (c_, c_)])
        elif kind in ("in-read-string", "file-read-string", "fd-read-string"):
            k1 = len(lead) + pad + rng.choice((-1, 0, 1))
            body = ("(let* ((a (read-string %d p)) (b (read-string 3 p)) (c (read-string 100000 p)) (d (read-string 5 p))) "
                    "(write (list (orle a) (rd b) (if (eof-object? c) -1 (orle c)) (rd d))))" % k1)
            a_, rest = cps[:k1], cps[k1:]
            b_, rest2 = rest[:3], rest[3:]
            exp = "(%s %s %s -1)" % (orle(a_), wr(b_) if b_ else "-1", orle(rest2) if rest2 else "-1")
        else:
            if kind == "file-write-char":
                body = None
            else:
                body = ("(let* ((a (read-line p)) (b (read-line p)) (c (read-line p))) "
                        "(write (list (if (eof-object? a) -1 (orle a)) (rd b) (rd c))))")
                ls = []
                pos = 0
                for _ in range(3):
                    if pos >= len(cps):
                        ls.append(None)
                        continue
                    try:
                        e = cps.index(10, pos)
                        ls.append(cps[pos:e])
                        pos = e + 1
                    except ValueError:
                        ls.append(cps[pos:])
                        pos = len(cps)
                exp = "(%s %s %s)" % (orle(ls[0]) if ls[0] is not None else "-1",
                                      wr(ls[1]) if ls[1] is not None else "-1", wr(ls[2]) if ls[2] is not None else "-1")
        if kind.startswith("in-"):
            form = "(%%case* %s (flush-output-port) (let* ((s %s) (p (open-input-string s))) (%%obs-try (lambda () %s))))" % (cid, mk, body)
        elif kind == "file-write-char":
            form = ("(%%case* %s (flush-output-port) (let* ((s %s)) (%%obs-try (lambda () "
                    "(let ((o (open-output-file %s))) (string-for-each (lambda (c) (write-char c o)) s) (close-output-port o)) "
                    "(let* ((p (open-input-file %s)) (r (read-string 100000 p))) (close-input-port p) (write (orle r)))))))"
                    % (cid, mk, scm_str(path), scm_str(path)))
            exp = orle(cps)
        elif kind.startswith("file-"):
            form = ("(%%case* %s (flush-output-port) (let* ((s %s)) (%%obs-try (lambda () "
                    "(let ((o (open-output-file %s))) (write-string s o) (close-output-port o)) "
                    "(let ((p (open-input-file %s))) %s (close-input-port p))))))" % (cid, mk, scm_str(path), scm_str(path), body))
        elif kind.startswith("fd-"):
            # a port on a bare file descriptor has no FILE* stream: it is refilled by the interpreter's own buffering code
            form = ("(%%case* %s (flush-output-port) (let* ((s %s)) (%%obs-try (lambda () "
                    "(let ((o (open-output-file %s))) (write-string s o) (close-output-port o)) "
                    "(let ((p (open-input-file-descriptor (open %s open/read)))) %s (close-input-port p))))))"
                    % (cid, mk, scm_str(path), scm_str(path), body))
        else:
            form = "(%%case* %s (flush-output-port) (let* ((s %s)) (%%obs-try (lambda () %s))))" % (cid, mk, body)
        line1 = cps[:cps.index(10)] if 10 in cps else cps
        # file ports: fgets takes at most 8191 bytes per call, the newline included; string ports: at most 8192 characters
        long_line = kind.endswith("read-line") and ((len(enc(line1)) + (1 if 10 in cps else 0) > 8191) if kind.startswith("file")
                                                    else len(line1) > 8192)
        out.append({"id": cid, "form": form, "expect": exp, "kind": kind, "w": w, "split": split, "bound": bound,
                    "long_line": long_line, "nul": 0 in cps})
    return out


PORT_HEADER = r"""
(define (%obs-try thunk) (let ((r (%try thunk))) (if (and (pair? r) (eq? (car r) 'err)) (write r)) (newline)))
"""


# ------------------------------------------------------------------------------------------------- scalar sweep
def sweep_form(cid, lo, hi):
    return r"""(%%case* %s
 (let lp ((cp %d) (n 0) (bad 0) (h 0))
   (cond
    ((>= cp %d) (%%obs (list 'swept n 'bad bad 'hash h)))
    ((and (>= cp #xD800) (<= cp #xDFFF)) (lp #xE000 n bad h))
    (else
     (let* ((c (integer->char cp))
            (s (string c))
            (bv (string->utf8 s))
            (w (cond ((< cp #x80) 1) ((< cp #x800) 2) ((< cp #x10000) 3) (else 4)))
            (s2 (utf8->string bv))
            (m (make-string 2 c))
            (ok (and (= (char->integer c) cp)
                     (= (string-length s) 1)
                     (= (bytevector-length bv) w)
                     (= (string-size s) w)
                     (= (string-length s2) 1)
                     (eqv? (string-ref s2 0) c)
                     (= (char->integer (string-ref s2 0)) cp)
                     (= (string-length m) 2)
                     (eqv? (string-ref m 1) c)
                     (string=? s s2)
                     (let ((t (string #\a #\b))) (string-set! t 0 c) (and (eqv? (string-ref t 0) c) (eqv? (string-ref t 1) #\b)
                                                                          (= (string-length t) 2)))
                     (eqv? c (read-char (open-input-string s)))
                     (eqv? c (car (string->list s)))))
            (h2 (let hl ((i 0) (h h)) (if (= i (bytevector-length bv)) h
                                         (hl (+ i 1) (modulo (+ (* h 31) (bytevector-u8-ref bv i) 7) 4294967291))))))
       (if (and (not ok) (< bad 5)) (%%obs (list 'fail cp (bvl bv) (string-length s) (string-length s2))))
       (lp (+ cp 1) (+ n 1) (if ok bad (+ bad 1)) h2))))))""" % (cid, lo, hi)


def sweep_expect(lo, hi):
    n = 0
    h = 0
    for cp in range(lo, hi):
        if 0xD800 <= cp <= 0xDFFF:
            continue
        n += 1
        for b in chr(cp).encode("utf-8"):
            h = (h * 31 + b + 7) % 4294967291
    return n, h


# ------------------------------------------------------------------------------------------------- check
def run_histories(rep, b, hs, variant, batch, env, timeout=120):
    """Histories that use utf8->string! run one per process: the known stale-offset defect can write outside the
    byte store, and a corrupted heap must not be blamed on (or hide) the other histories."""
    plain = [h for h in hs if not h["bang"]]
    bang = [h for h in hs if h["bang"]]
    res, procs = C.run_batches(b, IMPORTS, HEADER, [(h["id"], h["form"]) for h in plain], batch=batch, env_extra=env,
                               timeout=timeout, heap="32M/256M")

    def one(h):
        return C.run_file(b, IMPORTS, HEADER, [(h["id"], h["form"])], env_extra=env, timeout=timeout, heap="32M/256M")
    bres = R.pmap(one, bang)
    nsteps = 0
    for h in plain:
        ok = judge_history(rep, h, res.get(h["id"]), variant)
        nsteps += ok
        for st in h["steps"][:max(0, ok - 1)]:
            rep.case(st.sig)
    if "__ghost__" in res:
        rep.violation({"kind": "ghost-output"}, {"text": res["__ghost__"].text})
    for h, (r1, p1) in zip(bang, bres):
        nv = len(rep.violations)
        ok = judge_history(rep, h, r1.get(h["id"]), variant)
        nsteps += ok
        for st in h["steps"][:max(0, ok - 1)]:
            rep.case(st.sig)
        last = h["steps"][-1] if h["steps"] else None
        for p in p1:
            fails = p.log_lines("HEAPCHECK-FAIL")
            if fails and len(rep.violations) == nv:
                # heap damaged although every printed line agreed: attribute it to the one operation on the shared store
                sig = dict(last.vs) if last else {}
                sig.update({"op": last.op if last else "init", "mode": "heap-corruption"})
                rep.violation(sig, {"history": h["form"], "heapcheck": fails[:5], "build": variant})
            p.log = [l for l in p.log if not l.startswith("HEAPCHECK-FAIL")]
        procs.extend(p1)
    return nsteps, procs


def _unknown(rep):
    from .. import report as RP
    kf, _ = RP.load_findings(rep.prop)
    return sum(1 for sig, _w in rep.violations if not any(RP._match(f["match"], sig) for f in kf))


def _finish(rep, allprocs):
    for p in allprocs:
        for l in p.log_lines("HEAPCHECK-FAIL"):
            rep.violation({"op": "heapcheck", "mode": l.split()[1]}, {"line": l})
        for d in p.log_kv("HEAPCHECK-SUMMARY"):
            rep.count("heap_checks", d.get("runs", 0))
            rep.count("heap_objects_checked", d.get("objects", 0))
    rep.extra["processes"] = len(allprocs)
    rep.rule = ("seeded operation histories (<= 40 steps, three string variables, characters of UTF-8 width 1-4 and rarely "
                "U+0000; operands built by random routes) checked after every step against a code-point-list model "
                "(contents via string->list, string-length, string->utf8 bytes); port cases place a 1-4 byte character "
                "across the 4096-byte buffer boundary; exhaustive scalar sweep inside chibi with a UTF-8 byte hash compared "
                "to Python's codec. A case is one agreeing step; distinct = (operation, width class before/after or of the "
                "operands, position/range class, storage class)")
    rep.assumptions = ["Python's UTF-8 codec and list operations are the reference",
                       "observations use char->integer, string->list, string-length, string->utf8, bytevector-u8-ref and "
                       "write of integers/lists; a defect in those shows as a mismatch, not as silence",
                       "only the first divergent step of a history is judged"]


def check(rep, tier, seed):
    rng = random.Random(seed * 7919 + 12)
    b = B.ensure("hooks")
    rep.builds.add("hooks")
    quick = tier == "quick"
    nh = 3000 if quick else 60000
    nport = 160 if quick else 2000
    nasan = 150 if quick else 4000
    env = {"CHIBI_VERIF_HEAPCHECK": 1}
    allprocs = []

    # -- histories on the hooks build, in chunks (a small one first): a badly broken tree (a crash or a hang at every
    #    history) stops early instead of paying a watchdog timeout for each of 3000 histories
    hs = gen_histories(rng, nh)
    nsteps = 0
    done = 0
    bounds = [0, 120] + list(range(720, len(hs), 600)) + [len(hs)]
    for c0, c1 in zip(bounds, bounds[1:]):
        if c1 <= c0:
            continue
        n1, procs = run_histories(rep, b, hs[c0:c1], "hooks", 20 if c0 == 0 else 50, env, timeout=30)
        nsteps += n1
        done = c1
        allprocs += procs
        if _unknown(rep) >= 40:
            rep.extra["stopped_early"] = "after %d of %d histories: %d unexplained violations" % (done, len(hs), _unknown(rep))
            break
    rep.extra["histories"] = done
    rep.extra["steps_agreeing"] = nsteps
    rep.extra["steps_generated"] = sum(len(h["steps"]) for h in hs[:done])
    for h in hs[:3]:
        rep.sample({"history": h["form"][:1500], "expected_lines": h["lines"][:4]})
    if "stopped_early" in rep.extra:
        _finish(rep, allprocs)
        return

    # -- port cases
    tmpdir = R.scratch_dir("c12files")
    try:
        ps = gen_port_cases(random.Random(seed * 7919 + 13), nport, tmpdir)
        res, procs = C.run_batches(b, IMPORTS, HEADER + PORT_HEADER, [(p["id"], p["form"]) for p in ps], batch=20,
                                   env_extra=env, timeout=120, heap="32M/256M")
        allprocs += procs
        for p in ps:
            r = res.get(p["id"])
            sig = ("port", p["kind"], p["w"], p["split"], p["bound"], p["nul"])
            wit = {"form": p["form"], "expected": p["expect"]}
            vs = {"op": "port:" + p["kind"], "w": p["w"], "split": p["split"], "long_line": p["long_line"], "nul": p["nul"]}
            if r is None or r.status == "missing":
                rep.inconc("no-output", p["id"])
                continue
            if r.status == "timeout":
                rep.inconc("timeout", p["id"])
                continue
            rep.case(sig)
            got = r.text.strip()
            wit["observed"] = got[:2000]
            if r.status == "crash":
                wit["detail"] = r.detail
                rep.violation(dict(vs, mode="crash"), wit)
            elif got != p["expect"]:
                mode = "error" if got.startswith("(err") else "wrong-result"
                rep.violation(dict(vs, mode=mode), wit)
        rep.extra["port_cases"] = len(ps)
    finally:
        shutil.rmtree(tmpdir, ignore_errors=True)

    # -- exhaustive scalar sweep
    cuts = [0, 0x800, 0x10000, 0x40000, 0x80000, 0xC0000, 0x110000]
    if quick:
        cuts = [0, 0x10000, 0x60000, 0xB8000, 0x110000]
    sw = [("w%d" % i, cuts[i], cuts[i + 1]) for i in range(len(cuts) - 1)]
    res, procs = C.run_batches(b, IMPORTS, HEADER, [(cid, sweep_form(cid, lo, hi)) for cid, lo, hi in sw], batch=1,
                               env_extra=env, timeout=300, heap="32M/256M")
    allprocs += procs
    exps = R.pmap(lambda x: sweep_expect(x[1], x[2]), sw)
    swept = 0
    for (cid, lo, hi), (n, hsh) in zip(sw, exps):
        r = res.get(cid)
        if r is None or r.status in ("missing", "timeout"):
            rep.inconc("sweep-" + (r.status if r else "missing"), cid)
            continue
        wit = {"range": [lo, hi], "observed": r.text.strip()[:1500], "expected": "(swept %d bad 0 hash %d)" % (n, hsh)}
        if r.status == "crash":
            wit["detail"] = r.detail
            rep.violation({"op": "scalar-sweep", "mode": "crash"}, wit)
            continue
        lines = [l for l in r.text.split("\n") if l.strip()]
        fails = [l for l in lines if l.startswith("(fail")]
        last = lines[-1] if lines else ""
        rep.case(("sweep", lo), n=1)
        if fails:
            cp = parse_all(fails[0])[0][1]
            rep.violation({"op": "scalar-sweep", "mode": "roundtrip", "width": width(cp)}, wit)
        elif last != "(swept %d bad 0 hash %d)" % (n, hsh):
            rep.violation({"op": "scalar-sweep", "mode": "count-or-hash"}, wit)
        else:
            swept += n
    rep.extra["scalar_values_swept"] = swept

    # -- replay a slice on the red-zone ASan build
    if nasan:
        ba = B.ensure("asan-rz")
        rep.builds.add("asan-rz")
        ha = gen_histories(random.Random(seed * 7919 + 14), nasan, prefix="a")
        n2, procs = run_histories(rep, ba, ha, "asan-rz", 25 if quick else 50, {}, timeout=60)
        rep.extra["asan_histories"] = len(ha)
        rep.extra["asan_steps_agreeing"] = n2
        for p in procs:
            san = p.sanitizer_report()
            if san and not p.crashed and p.rc == 0:
                rep.violation({"kind": "asan", "error": san["kind"].split(" on ")[0], "frame": _first_frame(san), "op": "?"},
                              {"stderr": p.err[-3000:]})

    _finish(rep, allprocs)
