"""Process runner, watchdogs, hook-log collection, parallel map (DESIGN.md section 2.3)."""
import concurrent.futures
import os
import re
import resource
import shutil
import signal
import subprocess
import tempfile
import time

from . import build as B

SCRATCH = os.path.join(os.environ.get("VERIF_SCRATCH", "/tmp/chibi-verif-scratch"), "pid%d" % os.getpid())
JOBS = int(os.environ.get("VERIF_JOBS", str(os.cpu_count() or 4)))


def scratch_dir(prefix="run"):
    os.makedirs(SCRATCH, exist_ok=True)
    return tempfile.mkdtemp(prefix=prefix + "-", dir=SCRATCH)


def cleanup_scratch_own():
    shutil.rmtree(SCRATCH, ignore_errors=True)


def janitor():
    """Remove scratch directories left behind by checks that were killed (their pid is gone)."""
    base = os.path.dirname(SCRATCH)
    try:
        names = os.listdir(base)
    except OSError:
        return
    for n in names:
        if n.startswith("pid") and n[3:].isdigit() and not os.path.exists("/proc/" + n[3:]):
            shutil.rmtree(os.path.join(base, n), ignore_errors=True)


class Result:
    __slots__ = ("rc", "sig", "timed_out", "out", "err", "log", "log_truncated", "wall", "cmd", "env_extra")

    def __init__(self):
        self.rc = None
        self.sig = None
        self.timed_out = False
        self.out = ""
        self.err = ""
        self.log = []
        self.log_truncated = False
        self.wall = 0.0
        self.cmd = None
        self.env_extra = {}

    @property
    def crashed(self):
        return self.sig is not None and not self.timed_out

    def log_lines(self, prefix, limit=None):
        """Lines of the hook log with this prefix.  Failure reports are capped (a broken tree can emit millions of
        them per process and the 51st says nothing the first 50 did not)."""
        if limit is None and prefix.endswith("-FAIL"):
            limit = 50
        out = []
        for l in self.log:
            if l.startswith(prefix):
                out.append(l)
                if limit and len(out) >= limit:
                    break
        return out

    def log_kv(self, prefix):
        """Parse 'PREFIX k=v k=v' lines into dicts."""
        res = []
        for l in self.log_lines(prefix):
            d = {}
            for tok in l.split()[1:]:
                if "=" in tok:
                    k, v = tok.split("=", 1)
                    d[k] = int(v) if re.fullmatch(r"-?\d+", v) else v
            res.append(d)
        return res

    def sanitizer_report(self):
        """First sanitizer report (kind, summary frame list) found on stderr, or None."""
        return parse_sanitizer(self.err)

    def describe(self):
        if self.timed_out:
            return "timeout"
        if self.sig is not None:
            try:
                return "signal " + signal.Signals(self.sig).name
            except ValueError:
                return "signal %d" % self.sig
        return "exit %d" % self.rc


_FRAME = re.compile(r"^\s*#(\d+)\s+0x[0-9a-f]+\s+in\s+(\S+)")


def parse_sanitizer(err):
    if not err:
        return None
    m = re.search(r"==\d+==ERROR: (AddressSanitizer|LeakSanitizer|ThreadSanitizer): ([^\n]*)", err)
    kind = None
    if m:
        kind = m.group(1) + ": " + m.group(2).strip()
        start = m.start()
    else:
        m = re.search(r"([^\s:]+:\d+:\d+): runtime error: ([^\n]*)", err)
        if m:
            kind = "UBSan: " + m.group(2).strip()
            start = m.start()
        else:
            m = re.search(r"WARNING: ThreadSanitizer: ([^\n]*)", err)
            if m:
                kind = "ThreadSanitizer: " + m.group(1).strip()
                start = m.start()
    if kind is None:
        return None
    frames = []
    for line in err[start:].split("\n")[1:60]:
        fm = _FRAME.match(line)
        if fm:
            frames.append(fm.group(2))
        elif frames and not line.strip():
            break
    short = re.sub(r"0x[0-9a-f]+", "ADDR", kind)
    short = re.sub(r"\(pc .*", "", short).strip()
    return {"kind": short, "frames": frames}


def _limits(stack_mb, nofile):
    import resource

    def fn():
        if stack_mb:
            resource.setrlimit(resource.RLIMIT_STACK, (stack_mb << 20, stack_mb << 20))
        if nofile:
            resource.setrlimit(resource.RLIMIT_NOFILE, (nofile, nofile))
    return fn


def run(build, args, env_extra=None, timeout=60, stdin_data=None, cwd=None, heap=None, raw_cmd=None,
        want_log=True, max_out=8 << 20, stack_mb=None, nofile=None, fsize_mb=1024):
    """Run chibi (or raw_cmd) from the given build; never raises on failure of the child."""
    r = Result()
    d = scratch_dir("p")
    logf = os.path.join(d, "hook.log")
    extra = dict(env_extra or {})
    if want_log and "CHIBI_VERIF_LOG" not in extra:
        extra["CHIBI_VERIF_LOG"] = logf
    env = build.env(extra)
    cmd = raw_cmd if raw_cmd is not None else build.cmd(*args, heap=heap)
    r.cmd = cmd
    r.env_extra = {k: v for k, v in extra.items() if k != "CHIBI_VERIF_LOG"}
    t0 = time.time()
    outf = open(os.path.join(d, "out"), "wb+")
    errf = open(os.path.join(d, "err"), "wb+")
    try:
        p = subprocess.Popen(cmd, cwd=cwd or build.src, env=env, stdin=subprocess.PIPE if stdin_data is not None
                             else subprocess.DEVNULL, stdout=outf, stderr=errf, start_new_session=True,
                             preexec_fn=_limits(stack_mb, nofile) if (stack_mb or nofile) else None)
        try:
            # a broken tree can write without end: no file of the child (stdout, stderr, hook log) grows beyond 1 GB
            resource.prlimit(p.pid, resource.RLIMIT_FSIZE, (fsize_mb << 20, fsize_mb << 20))
        except (OSError, ValueError):
            pass
        try:
            p.communicate(stdin_data, timeout=timeout)
        except subprocess.TimeoutExpired:
            r.timed_out = True
            try:
                os.killpg(p.pid, signal.SIGKILL)
            except ProcessLookupError:
                pass
            p.wait()
        rc = p.returncode
        if rc is not None and rc < 0:
            r.sig = -rc
            r.rc = 128 - rc
        else:
            r.rc = rc
        # make sure no stray children survive
        try:
            os.killpg(p.pid, signal.SIGKILL)
        except (ProcessLookupError, PermissionError):
            pass
    finally:
        r.wall = time.time() - t0
        for f, name in ((outf, "out"), (errf, "err")):
            size = f.seek(0, 2)
            f.seek(0)
            if size <= max_out:
                data = f.read(max_out)
            else:                      # both ends: what was said first and what was said last
                data = f.read(max_out // 2)
                f.seek(size - max_out // 2)
                data += b"\n...[%d bytes cut]...\n" % (size - max_out) + f.read(max_out // 2)
            f.close()
            setattr(r, name, data.decode("utf-8", "replace"))
        if os.path.exists(logf):
            with open(logf, errors="replace") as fh:
                r.log = fh.read(160 << 20).split("\n")
            r.log_truncated = os.path.getsize(logf) > (160 << 20) or "LOG-TRUNCATED" in r.log[-3:]
        shutil.rmtree(d, ignore_errors=True)
    return r


def gdb_backtrace(build, args, env_extra=None, timeout=120, cwd=None, raw_cmd=None, heap=None, nframes=14):
    """Re-run under gdb and return the list of function names at the fatal signal (triage only)."""
    cmd = raw_cmd if raw_cmd is not None else build.cmd(*args, heap=heap)
    g = ["gdb", "-batch", "-ex", "set pagination off", "-ex", "handle SIGPIPE nostop noprint", "-ex", "run",
         "-ex", "bt %d" % nframes, "--args"] + cmd
    r = run(build, None, env_extra=env_extra, timeout=timeout, cwd=cwd, raw_cmd=g)
    frames = []
    for line in r.out.split("\n"):
        m = re.match(r"^#(\d+)\s+(?:0x[0-9a-f]+ in )?(\S+) \(", line)
        if m:
            frames.append(m.group(2))
    return frames


def pmap(fn, items, jobs=None):
    """Ordered parallel map with threads (the work is in child processes)."""
    items = list(items)
    if not items:
        return []
    with concurrent.futures.ThreadPoolExecutor(max_workers=jobs or JOBS) as ex:
        return list(ex.map(fn, items))
