"""Case files: many cases per chibi process, one top-level form per case (DESIGN 2.3/2.4).

A case is (id, form_text).  The file prints '\\n#<id>\\n' before each case, the form prints its
observations (usually through the %obs helper which writes one datum per line) and the runner
splits stdout on the markers.  A crash/hang is attributed to the last announced case and the file is
re-run from the next case.
"""
import os
import re

from . import run as R
from . import sexpr

PRELUDE = r"""
(define (%classify e)
  (cond ((and (error-object? e) (file-error? e)) 'file-error)
        ((and (error-object? e) (read-error? e)) 'read-error)
        ((error-object? e) 'error)
        (else (list 'raised e))))
(define (%try thunk)
  (call-with-current-continuation
   (lambda (k)
     (with-exception-handler
      (lambda (e) (k (list 'err (%classify e))))
      thunk))))
(define (%obs x) (write x) (newline))
(define-syntax %case
  (syntax-rules ()
    ((_ id expr) (begin (newline) (display "#") (display 'id) (newline) (flush-output-port)
                        (%obs (%try (lambda () expr)))
                        (flush-output-port)))))
(define-syntax %case*
  (syntax-rules ()
    ((_ id body ...) (begin (newline) (display "#") (display 'id) (newline) (flush-output-port)
                            body ...
                            (flush-output-port)))))
"""

DEFAULT_IMPORTS = "(import (scheme base) (scheme write) (scheme process-context))"
FOOTER = '\n(newline) (display "#END") (newline) (flush-output-port) (emergency-exit 0)\n'


class CaseResult:
    __slots__ = ("status", "text", "detail")

    def __init__(self, status, text="", detail=None):
        self.status = status      # ok | crash | timeout | missing | ghost
        self.text = text
        self.detail = detail

    def data(self):
        return sexpr.parse_all(self.text)


# a case id is never t/f/true/false, so that an observation line that is just #t or #f is not taken for a marker
_MARK = re.compile(r"^#(END|(?!(?:t|f|true|false)$)[A-Za-z0-9_.:-]+)$", re.M)


def split_output(out):
    """-> (ordered [(id, text)], saw_end, trailing_after_end)"""
    parts = []
    pos = 0
    cur = None
    start = 0
    saw_end = False
    trailing = ""
    for m in _MARK.finditer(out):
        if cur is not None:
            parts.append((cur, out[start:m.start()]))
        if m.group(1) == "END":
            saw_end = True
            trailing = out[m.end():]
            cur = None
            break
        cur = m.group(1)
        start = m.end()
    else:
        if cur is not None:
            parts.append((cur, out[start:]))
    return parts, saw_end, trailing


def run_file(build, imports, header, cases, env_extra=None, timeout=60, heap=None, workdir=None,
             keep=None, extra_args=(), prelude=PRELUDE):
    """Run the cases (list of (id, text)) in as few processes as needed.
    Returns (dict id -> CaseResult, list of process Results)."""
    results = {}
    procs = []
    remaining = list(cases)
    d = workdir or R.scratch_dir("cf")
    attempt = 0
    while remaining:
        attempt += 1
        path = os.path.join(d, "cases-%d.scm" % attempt)
        with open(path, "w") as fh:
            fh.write(imports + "\n" + prelude + "\n" + header + "\n")
            for cid, text in remaining:
                fh.write(text + "\n")
            fh.write(FOOTER)
        # the whole output is needed: results are matched to cases by the markers in it (a batch of 400 base64 cases
        # prints more than R.run's default cap, and a cut in the middle attributed one case's output to another)
        r = R.run(build, list(extra_args) + [path], env_extra=env_extra, timeout=timeout, heap=heap, max_out=1 << 30)
        procs.append(r)
        parts, saw_end, trailing = split_output(r.out)
        seen = []
        for cid, text in parts:
            results[cid] = CaseResult("ok", text)
            seen.append(cid)
        ids = [c for c, _ in remaining]
        if saw_end and r.rc == 0 and not trailing.strip():
            for cid in ids:
                if cid not in results:
                    results[cid] = CaseResult("missing", "", "no output for case")
            break
        if saw_end and trailing.strip():
            # output after #END: a stale VM loop resumed ("ghost")
            for cid in ids:
                results.setdefault(cid, CaseResult("missing"))
            results["__ghost__"] = CaseResult("ghost", trailing[:400])
            break
        # died / hung / nonzero exit: blame the last announced case
        if seen:
            last = seen[-1]
            idx = ids.index(last) if last in ids else len(ids) - 1
        else:
            idx = -1
        status = "timeout" if r.timed_out else "crash"
        detail = {"how": r.describe(), "stderr": r.err[-2000:], "sanitizer": r.sanitizer_report(),
                  "hooklog": [l for l in r.log if "FAIL" in l or "DEADLOCK" in l][:10], "file": path}
        if idx < 0:
            # died before the first case: prelude/import problem -> everything unknown
            for cid in ids:
                results[cid] = CaseResult(status, "", detail)
            break
        results[ids[idx]] = CaseResult(status, results[ids[idx]].text if ids[idx] in results else "", detail)
        remaining = remaining[idx + 1:]
        if attempt > 50:
            for cid, _ in remaining:
                results[cid] = CaseResult("missing", "", "too many restarts")
            break
    if keep is None and workdir is None:
        import shutil
        shutil.rmtree(d, ignore_errors=True)
    return results, procs


def run_batches(build, imports, header, cases, batch=200, jobs=None, **kw):
    """Split cases into batches run in parallel.  Returns (results dict, process Results)."""
    batches = [cases[i:i + batch] for i in range(0, len(cases), batch)]

    def one(b):
        return run_file(build, imports, header, b, **kw)

    allres = {}
    procs = []
    for res, ps in R.pmap(one, batches, jobs=jobs):
        allres.update(res)
        procs.extend(ps)
    return allres, procs
