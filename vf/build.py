"""Variant builds of the chibi-scheme working tree (DESIGN.md section 2.1).

Every check calls ensure(variant): the tree under $VERIF_REPO (default /repo) is hashed,
snapshotted into a disposable cache and built with cmake+ninja for the requested variant.
A build is reused only for an identical tree hash, so a check never runs stale code.
"""
import fcntl
import hashlib
import os
import shutil
import subprocess
import sys
import time

REPO = os.environ.get("VERIF_REPO", "/repo")
CACHE = os.environ.get("VERIF_CACHE", "/tmp/chibi-verif-cache")
VERIF = os.path.dirname(os.path.dirname(os.path.abspath(__file__)))
BUILD_TIMEOUT = int(os.environ.get("VERIF_BUILD_TIMEOUT", "420"))

COMMON = "-g -fno-omit-frame-pointer -Wno-error"
UBSAN_SUBSET = "-fsanitize=bounds,vla-bound,return,unreachable,null"
VARIANTS = {
    "hooks": "-O2 -DCHIBI_VERIF=1",
    "asan-rz": "-O1 -DCHIBI_VERIF=1 -DSEXP_GC_PAD=32 -fsanitize=address " + UBSAN_SUBSET
               + " -fno-sanitize-recover=all",
    "tsan": "-O1 -fsanitize=thread",
    "plain": "-O2",
    "nosimp": "-O2 -DSEXP_USE_SIMPLIFY=0",
    "cll": "-O2 -DSEXP_USE_CUSTOM_LONG_LONGS=1",
}
ASAN_OPTIONS = ("detect_leaks=0:detect_odr_violation=0:abort_on_error=1:"
                "allocator_may_return_null=1:handle_abort=1:detect_stack_use_after_return=0")
UBSAN_OPTIONS = "print_stacktrace=1:halt_on_error=1"
TSAN_OPTIONS = "halt_on_error=0:second_deadlock_stack=1:report_signal_unsafe=0"


# extra environment applied to every interpreter process started through Build.env() -- used by C02 to replay other
# properties' whole workloads under forced-collection schedules
AMBIENT_ENV = {}
# variant substitution applied by ensure() -- used by C01 to replay other properties' workloads on the sanitized build
VARIANT_OVERRIDE = {}


class HarnessError(Exception):
    """Something in the machinery (not the code under test) failed: exit code 2."""


def tree_hash(repo=None):
    repo = repo or REPO
    h = hashlib.sha256()
    n = 0
    for root, dirs, files in os.walk(repo):
        dirs[:] = sorted(d for d in dirs if not (root == repo and d in ("_build", ".git")))
        for f in sorted(files):
            if root == repo and f == ".git":
                continue            # a worktree's .git is a file
            p = os.path.join(root, f)
            if os.path.islink(p):
                h.update(b"L" + os.path.relpath(p, repo).encode() + b"\0" + os.readlink(p).encode())
                continue
            if not os.path.isfile(p):
                continue
            h.update(os.path.relpath(p, repo).encode() + b"\0")
            with open(p, "rb") as fh:
                h.update(hashlib.sha256(fh.read()).digest())
            n += 1
    return h.hexdigest()[:16], n


class Build:
    def __init__(self, variant, src, bdir, thash):
        self.variant = variant
        self.src = src
        self.bdir = bdir
        self.hash = thash
        self.chibi = os.path.join(bdir, "chibi-scheme")
        self.flags = COMMON + " " + VARIANTS[variant]

    def touch(self):
        """Keep the cached build alive while a long check is using it (cleanup drops builds unused for hours)."""
        now = time.time()
        if now - getattr(self, "_touched", 0) > 300:
            self._touched = now
            for p in (os.path.join(self.bdir, ".verif-ok"), self.src):
                try:
                    os.utime(p)
                except OSError:
                    pass

    def env(self, extra=None):
        self.touch()
        e = dict(os.environ)
        for k in list(e):
            if k.startswith("CHIBI_VERIF"):
                del e[k]
        e["LD_LIBRARY_PATH"] = self.bdir
        e["CHIBI_IGNORE_SYSTEM_PATH"] = "1"
        e["CHIBI_MODULE_PATH"] = os.path.join(self.bdir, "lib") + ":" + os.path.join(self.src, "lib")
        if self.variant == "asan-rz":
            e["ASAN_OPTIONS"] = ASAN_OPTIONS
            e["UBSAN_OPTIONS"] = UBSAN_OPTIONS
        if self.variant == "tsan":
            e["TSAN_OPTIONS"] = TSAN_OPTIONS
        if AMBIENT_ENV:
            e.update({k: str(v) for k, v in AMBIENT_ENV.items()})
        if extra:
            e.update({k: str(v) for k, v in extra.items() if not (k in AMBIENT_ENV and k != "CHIBI_VERIF_LOG")})
        return e

    def cmd(self, *args, heap=None):
        c = [self.chibi]
        if heap:
            c.append("-h" + heap)
        c += ["-I", os.path.join(self.bdir, "lib")]
        return c + list(args)

    def native(self, name, extra_flags=""):
        """Compile /verif/native/<name>.c against this build (shared lib if it defines
        sexp_init_library, else an executable); cached inside the build dir."""
        srcf = os.path.join(VERIF, "native", name + ".c")
        text = open(srcf).read()
        shared = "sexp_init_library" in text
        out = os.path.join(self.bdir, "verif-" + name + (".so" if shared else ""))
        stamp = out + ".stamp"
        key = hashlib.sha256((text + self.flags + extra_flags).encode()).hexdigest()
        if os.path.exists(out) and os.path.exists(stamp) and open(stamp).read() == key:
            return out
        flags = self.flags.split() + extra_flags.split()
        cmd = ["gcc"] + flags + ["-I", os.path.join(self.src, "include"), "-I", os.path.join(self.bdir, "include")]
        if shared:
            cmd += ["-fPIC", "-shared"]
        cmd += [srcf, "-o", out + ".tmp", "-L", self.bdir, "-l:libchibi-scheme.so", "-lm", "-ldl", "-lpthread",
                "-Wl,-rpath," + self.bdir]
        r = subprocess.run(cmd, capture_output=True, text=True)
        if r.returncode != 0:
            raise HarnessError("compiling native/%s.c failed:\n%s" % (name, r.stderr[-3000:]))
        os.replace(out + ".tmp", out)
        open(stamp, "w").write(key)
        return out


def _rm(path):
    shutil.rmtree(path, ignore_errors=True)


def ensure(variant, repo=None, quiet=False):
    repo = repo or REPO
    variant = VARIANT_OVERRIDE.get(variant, variant)
    if variant not in VARIANTS:
        raise HarnessError("unknown variant " + variant)
    os.makedirs(CACHE, exist_ok=True)
    thash, nfiles = tree_hash(repo)
    src = os.path.join(CACHE, "src-" + thash)
    bdir = os.path.join(CACHE, "build-%s-%s" % (variant, thash))
    lock = open(os.path.join(CACHE, "lock-%s-%s" % (variant, thash)), "w")
    fcntl.flock(lock, fcntl.LOCK_EX)
    try:
        ok = os.path.join(bdir, ".verif-ok")
        if os.path.exists(ok) and os.path.exists(os.path.join(src, ".verif-ok")):
            os.utime(ok)
            os.utime(src)
            return Build(variant, src, bdir, thash)
        t0 = time.time()
        # snapshot (shared by all variants of this hash)
        slock = open(os.path.join(CACHE, "lock-src"), "w")
        fcntl.flock(slock, fcntl.LOCK_EX)
        try:
            if not os.path.exists(os.path.join(src, ".verif-ok")):
                _rm(src)
                r = subprocess.run(["rsync", "-a", "--exclude", "/_build", "--exclude", "/.git",
                                    repo.rstrip("/") + "/", src + "/"], capture_output=True, text=True)
                if r.returncode != 0:
                    raise HarnessError("snapshot failed: " + r.stderr)
                h2, _ = tree_hash(src)
                if h2 != thash:
                    _rm(src)
                    raise HarnessError("tree changed while it was being snapshotted; run again")
                open(os.path.join(src, ".verif-ok"), "w").write(thash)
            # drop snapshots / builds of other hashes (keep disk use bounded)
            for name in os.listdir(CACHE):
                p = os.path.join(CACHE, name)
                try:
                    age = time.time() - os.path.getmtime(p)
                except OSError:
                    continue        # removed by a concurrent check
                if name.startswith("src-") and name != "src-" + thash:
                    if age > 5 * 3600:
                        _rm(p)
                if name.startswith("lock-") and age > 86400:
                    try:
                        os.unlink(p)
                    except OSError:
                        pass
                if name.startswith("build-%s-" % variant) and name != os.path.basename(bdir):
                    okf = os.path.join(p, ".verif-ok")
                    # other trees (scratch worktrees used by self-tests) may be in use right now:
                    # drop a build only when it has not been used for a while
                    try:
                        stale = time.time() - os.path.getmtime(okf if os.path.exists(okf) else p) > 4 * 3600
                    except OSError:
                        stale = False
                    if stale:
                        _rm(p)
        finally:
            fcntl.flock(slock, fcntl.LOCK_UN)
            slock.close()
        _rm(bdir)
        flags = COMMON + " " + VARIANTS[variant]
        r = subprocess.run(["cmake", "-G", "Ninja", "-S", src, "-B", bdir, "-DCMAKE_BUILD_TYPE=None",
                            "-DCMAKE_C_FLAGS=" + flags], capture_output=True, text=True)
        if r.returncode != 0:
            raise HarnessError("cmake configure failed (%s):\n%s" % (variant, (r.stdout + r.stderr)[-3000:]))
        env = dict(os.environ)
        if variant == "asan-rz":
            env["ASAN_OPTIONS"] = ASAN_OPTIONS
        try:
            r = subprocess.run(["cmake", "--build", bdir, "--target", "chibi-scheme", "chibi-compiled-libs",
                                "-j", str(os.cpu_count() or 4)], capture_output=True, text=True, env=env,
                               timeout=BUILD_TIMEOUT, start_new_session=True)
        except subprocess.TimeoutExpired:
            # the build runs the freshly built interpreter (chibi-ffi): a tree whose interpreter hangs ends here
            for pid in subprocess.run(["pgrep", "-f", bdir], capture_output=True, text=True).stdout.split():
                try:
                    os.kill(int(pid), 9)
                except (OSError, ValueError):
                    pass
            _rm(bdir)
            raise HarnessError("build of variant %s did not finish within %d s (the tree's own interpreter is run "
                               "during the build to generate stubs)" % (variant, BUILD_TIMEOUT))
        if r.returncode != 0:
            raise HarnessError("build failed (%s):\n%s" % (variant, (r.stdout + r.stderr)[-6000:]))
        open(ok, "w").write(thash)
        if not quiet:
            sys.stderr.write("[build] %s %s built in %.1fs (%d files hashed)\n" % (variant, thash, time.time() - t0, nfiles))
        return Build(variant, src, bdir, thash)
    finally:
        fcntl.flock(lock, fcntl.LOCK_UN)
        lock.close()


if __name__ == "__main__":
    for v in sys.argv[1:] or ["hooks"]:
        b = ensure(v)
        print(v, b.bdir)
