#!/usr/bin/env python3
"""mark_fixed.py <PROP> <finding-id>[,<id>...] : move findings to the `fixed` list (records the latest /repo commit)."""
import json
import subprocess
import sys

prop, ids = sys.argv[1], sys.argv[2].split(",")
f = "/verif/known_findings/%s.json" % prop
d = json.load(open(f))
commit = subprocess.run(["git", "-C", "/repo", "log", "-1", "--format=%h %s"], capture_output=True, text=True).stdout.strip()
keep = []
for e in d["findings"]:
    if e["id"] in ids:
        d["fixed"].append("fixed: property=%s %s -- %s [was %s; witness: %s]" % (prop, commit, e["what"], e["id"], str(e.get("witness"))[:200]))
    else:
        keep.append(e)
missing = set(ids) - {e["id"] for e in d["findings"]}
d["findings"] = keep
json.dump(d, open(f, "w"), indent=1)
print(prop, "moved", len(ids) - len(missing), "missing", sorted(missing))
