#!/usr/bin/env python3
"""selftest.py <ID> <patch> [more patches]: apply each patch to a scratch worktree of /repo (outside /repo and
/verif), run `./check <ID> quick` against it, expect exit 1 with a VIOLATION line, remove the worktree."""
import os
import shutil
import subprocess
import sys
import tempfile

VERIF = os.path.dirname(os.path.dirname(os.path.abspath(__file__)))


def main():
    prop = sys.argv[1]
    rc = 0
    for patch in sys.argv[2:]:
        wt = tempfile.mkdtemp(prefix="chibi-selftest-", dir="/tmp")
        os.rmdir(wt)
        try:
            subprocess.run(["git", "-C", "/repo", "worktree", "add", "--detach", wt, "HEAD"], check=True,
                           capture_output=True)
            # carry over uncommitted changes of /repo's working tree too
            diff = subprocess.run(["git", "-C", "/repo", "diff", "HEAD"], capture_output=True).stdout
            if diff.strip():
                subprocess.run(["git", "-C", wt, "apply"], input=diff, check=True)
            r = subprocess.run(["git", "-C", wt, "apply", os.path.abspath(patch)], capture_output=True, text=True)
            if r.returncode != 0:
                print("SELFTEST %s %s: patch does not apply: %s" % (prop, patch, r.stderr.strip()))
                rc = 2
                continue
            env = dict(os.environ, VERIF_REPO=wt)
            r = subprocess.run(["./check", prop, "quick"], cwd=VERIF, env=env, capture_output=True, text=True)
            caught = r.returncode == 1 and "VIOLATION property=%s" % prop in r.stdout
            tail = [l for l in r.stdout.split("\n") if l.startswith(("VIOLATION", prop + " "))][:3]
            print("SELFTEST %s %s: %s (exit %d) %s" % (prop, os.path.basename(patch), "CAUGHT" if caught else "MISSED",
                                                       r.returncode, " | ".join(tail)[:300]))
            if not caught:
                rc = 1
                sys.stdout.write(r.stderr[-800:])
        finally:
            subprocess.run(["git", "-C", "/repo", "worktree", "remove", "--force", wt], capture_output=True)
            shutil.rmtree(wt, ignore_errors=True)
    return rc


if __name__ == "__main__":
    sys.exit(main())
