#!/usr/bin/env python3
"""apply_fix.py <patch> ["commit subject"]: apply one proposed fix to /repo and commit it as a `fix:` commit.
The patch file = free-text explanation followed by a unified diff (git apply ignores the leading text)."""
import re
import subprocess
import sys

import os
patch = os.path.abspath(sys.argv[1])
text = open(patch).read()
i = text.find("diff --git")
desc = text[:i].strip()
subject = sys.argv[2] if len(sys.argv) > 2 else None
if not subject:
    first = re.split(r"(?<=[.;:])\s", desc.replace("\n", " "), 1)[0]
    subject = first[:100]
r = subprocess.run(["git", "-C", "/repo", "apply", "--check", patch], capture_output=True, text=True)
if r.returncode != 0:
    print("DOES NOT APPLY:", patch, r.stderr.strip()[:300])
    sys.exit(1)
files = re.findall(r"^diff --git a/(\S+) b/", text, re.M)
subprocess.run(["git", "-C", "/repo", "apply", patch], check=True)
msg = "fix: " + subject + "\n\n" + desc + "\n"
subprocess.run(["git", "-C", "/repo", "add"] + files, check=True)
subprocess.run(["git", "-C", "/repo", "commit", "-q", "-m", msg], check=True)
print("applied", patch, "->", subprocess.run(["git", "-C", "/repo", "log", "--oneline", "-1"], capture_output=True, text=True).stdout.strip())
