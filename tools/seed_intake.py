#!/usr/bin/env python3
"""seed_intake.py <ID> [check ids...]: confirm a seeded change delivered in /tmp/seed-<ID>/{wt,out} and file it under
/verif/seeded/<ID>/.  Steps: (1) the repository suite passes with the change (ctest in the worktree's _build),
(2) the demonstration fails with the change (run from the worktree) and passes without it (run from /repo, whose
_build must be current), (3) run the named checks (default: the same id) with VERIF_REPO=<worktree>, record verdicts."""
import json
import os
import re
import shutil
import subprocess
import sys
import time

pid = sys.argv[1]
checks = sys.argv[2:] or [pid]
base = "/tmp/seed-%s" % pid
wt, out = base + "/wt", base + "/out"
meta = json.load(open(out + "/meta.json"))
dst = "/verif/seeded/%s" % pid
os.makedirs(dst, exist_ok=True)
rec = {"property": pid, "summary": meta.get("summary"), "needs": meta.get("needs"), "demo_cmd": meta.get("demo_cmd")}


def sh(cmd, cwd, timeout=1800):
    try:
        p = subprocess.run(cmd, shell=True, cwd=cwd, capture_output=True, text=True, timeout=timeout)
        return p.returncode, (p.stdout + p.stderr)
    except subprocess.TimeoutExpired:
        return -999, "TIMEOUT"


# make sure the worktree build is current with its sources
sh("cmake --build _build -j8 2>&1 | tail -2", wt)
t0 = time.time()
rc, o = sh("ctest --test-dir _build -j8 --timeout 900 2>&1 | tail -12", wt, timeout=3600)
m = re.search(r"(\d+)% tests passed, (\d+) tests failed out of (\d+)", o)
failed = re.findall(r"^\s*\d+ - (\S+) \(", o, re.M)
rec["suite_with_change"] = {"summary": m.group(0) if m else o[-300:], "failed": failed, "wall_s": round(time.time() - t0)}
suite_ok = bool(m) and (int(m.group(2)) == 0 or set(failed) <= {"lib_chibi_weak-test"})
cmd = meta["demo_cmd"].split("   (")[0].strip()
rc1, o1 = sh(cmd, wt, timeout=1200)
rc0, o0 = sh(cmd, "/repo", timeout=1200)
rec["demo_with_change"] = {"rc": rc1, "output_tail": o1[-1200:]}
rec["demo_without_change"] = {"rc": rc0, "output_tail": o0[-1200:]}
rec["checks"] = {}
for c in checks:
    t0 = time.time()
    env = dict(os.environ, VERIF_REPO=wt, VERIF_JOBS=os.environ.get("VERIF_JOBS", "8"))
    p = subprocess.run(["./check", c, "quick"], cwd="/verif", env=env, capture_output=True, text=True)
    nviol = len([l for l in p.stdout.split("\n") if l.startswith("VIOLATION property=%s" % c)])
    last = [l for l in p.stdout.split("\n") if l.startswith(c + " quick")]
    sigs = re.findall(r"signature: (\{.*\})", p.stderr)[:4]
    rec["checks"][c] = {"exit": p.returncode, "violation_lines": nviol, "summary": last[-1] if last else p.stderr[-400:],
                        "first_signatures": sigs, "wall_s": round(time.time() - t0), "verdict": "CAUGHT" if p.returncode == 1 and nviol else ("HARNESS" if p.returncode == 2 else "MISSED")}
rec["confirmed"] = {"suite_passes_with_change": suite_ok, "demo_fails_with_change": rc1 != 0 or o1 != o0, "demo_passes_without_change": rc0 == 0}
shutil.copy(out + "/patch.diff", dst + "/patch.diff")
for f in os.listdir(out):
    if f.startswith("demo"):
        shutil.copy(os.path.join(out, f), os.path.join(dst, f))
json.dump(rec, open(dst + "/meta.json", "w"), indent=1)
print(pid, json.dumps({"suite": rec["suite_with_change"]["summary"], "confirmed": rec["confirmed"], "checks": {k: (v["verdict"], v["summary"][:120]) for k, v in rec["checks"].items()}}))
